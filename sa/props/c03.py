"""C03 - each data element reaches the model at its place (placement dataflow + the decode tables the statement enumerates)."""
from ..schema import Schema
from .. import rules_schema as S
from .. import rules_construct as F
from .. import rules_values as V
from .. import rules_dates as Z

EXPLANATION = (
    "Static dataflow analysis of placement plus the decode tables the property itself enumerates. V-R1: in the "
    "reducer the value of a declared child is the element's own text or Aggregate.from_etree(that element), None "
    "only for Unsupported children, reaching kwargs[own tag] / args.append unmodified (reaching definitions). V-R2: "
    "document order of list members (append, left fold, in-order _apply_args). V-R3: absent children are None "
    "(F-R2 value provenance in __init__). V-R4: descriptor slot naming. V-R5: boolean table exactly Y/N. V-R6: the "
    "character-data decoder covers the six entities in a single pass (&amp; last). V-R7: both decimal separators. "
    "M1/M2: class lookup by tag and keying by lower-cased tag. Z-R4/Z-R5: field-to-value plumbing of date-times and "
    "the sign of offset minutes. Not decided: the typed value in general (runtime data)."
)
ASSUMPTIONS = ["decimal.Decimal, int(), saxutils.unescape implement their documented semantics"]


def run(project, rep):
    schema = Schema(project)
    schema.check_floors()
    rep.run(S.m1_from_etree, schema, rep)
    rep.rule("V-R14", "every tag of a valid document names a class the reader can find: each model class used as a child is reachable as ofxtools.models.<TAG> (S-R2)")
    rep.run(S.s_r2_findable, schema, rep)
    rep.run(S.s_r13_no_scale_on_document_amounts, schema, rep)
    rep.run(S.m2_update_args, schema, rep)
    rep.run(V.v_rules, schema, rep)
    rep.run(V.v_r8_token_tables, project, rep)
    rep.rule("V-R12", "every declared child has a storage slot of its own (S-R9): children sharing one descriptor object read and write one value")
    rep.run(S.s_r9_own_descriptor, schema, rep)
    from .. import rules_unknown as U
    rep.run(U.u_r9_overrides_only_retag, schema, rep)
    rep.run(U.u_r11_no_edit_of_the_sequence_being_iterated, schema, rep)
    from .. import rules_parser as _P11
    rep.run(_P11.p_r11_no_element_truthiness, project, rep, modules=("ofxtools.Parser", "ofxtools.models.base"))
    # an unknown tag in between changes nothing for the children after it: the reducer's unknown-tag branch hands back the
    # accumulator it received (U-R1), and in the loop form no carried state is assigned on the way to it (U-R1b)
    rep.run_only(("U-R1",), U.u_rules, schema, rep)
    rep.run(U.u_r1b_loop_state_on_unknown_path, schema, rep)
    from .. import rules_types as T
    rep.run(T.t_r7, project, rep)
    rep.run(T.t_r6b_no_context_arithmetic, project, rep)
    rep.rule("V-R11", "values at a declared limit reach the model: the readers' guards refuse only what is beyond the limit (T-R4)")
    rep.run(T.t_r4, project, rep)
    rep.run(T.t_r4b_guards_constant, project, rep)
    from .. import rules_parser as P
    rep.rule("V-R9", "character data reaches the converters as it is in the document (only surrounding whitespace trimmed): tokenizer rules X-R*")
    rep.run(P.x_rules, project, rep)
    rep.run(P.p_r9_convert_built_on_every_call, project, rep)
    rep.rule("V-R3", "absent children are None: Aggregate.__init__ sets every non-list spec attribute from the keyword of the same name, None when absent, through the descriptor (F-R2)")
    rep.run(F.f_r2_init, schema, rep)
    rep.run(Z.z_r4_conversion, project, rep, utc_label=True)
    rep.run(Z.z_r5_offset_sign, project, rep)
    rep.run(Z.z_r5b_sign_of_zero_hours, project, rep)
    rep.run(Z.z_r12_zone_table_consistent, project, rep)
    rep.rule("V-R13", "every offset the notation allows (-12 .. +14) reaches the model: the range test of gmt_offset admits exactly that domain (Z-R8)")
    rep.run(Z.z_r8_offset_domain, project, rep)
    rep.run(Z.z_r6_carrier_date, project, rep)
    rep.run(Z.z_r1_grammar, project, rep)
    from .. import rules_header as H
    rep.rule("V-R10", "character data is decoded with the codec the header's CHARSET names (H-R2)")
    rep.run(H.h_r2, project, rep)
    from .. import rules_values as _V15
    rep.run(_V15.v_r15_no_html5_entity_decoder, project, rep)
