"""C09 - date-time notation (rejection clause, writer shape, offset sign)."""
from .. import rules_dates as Z
from .. import rules_wire as L

EXPLANATION = (
    "Static analysis of the two date/time grammars and of the functions around them. Z-R1: the language of every "
    "fixed-width group of DT_REGEX/TIME_REGEX is enumerated exactly from the regex syntax tree (re._parser) and "
    "compared with the OFX ranges; anchoring, flags, field order, all-or-nothing time part, mandatory fields, no "
    "unbounded repeat outside the offset bracket; a failed match raises before any field is used. Z-R1b: separators "
    "are literals. Z-R2: naive values refused on every write path (disjunctive: handler or format_datetime) and by "
    "the native readers. Z-R3: the writer's offset shape lies inside the reader's grammar. Z-R4: field-to-value "
    "plumbing (ms x 1000, absent = 0, offset subtracted, UTC label). Z-R5: abstract interpretation over the sign "
    "domain of utils.gmt_offset (minutes take the sign of the hours). Not decided: which instant a text denotes in "
    "general, rounding, the '-0.30' case (int('-0') loses the sign: value-level, see DESIGN D9)."
)
ASSUMPTIONS = ["datetime / timedelta arithmetic of the stdlib"]


def run(project, rep):
    rep.run(Z.z_r1_grammar, project, rep)
    rep.run(Z.z_r1b_separators, project, rep)
    rep.run(Z.z_r2_naive, project, rep)
    rep.run(Z.z_r3_writer_shape, project, rep)
    rep.run(L.l_r3_datetime, project, rep)
    rep.run(Z.z_r4_conversion, project, rep, utc_label=True)
    rep.run(Z.z_r5_offset_sign, project, rep)
    rep.run(Z.z_r5b_sign_of_zero_hours, project, rep)
    rep.run(Z.z_r12_zone_table_consistent, project, rep)
    rep.run(Z.z_r6_carrier_date, project, rep)
    rep.run(Z.z_r7_aware_values_kept, project, rep)
    rep.run(Z.z_r8_offset_domain, project, rep)
    rep.run(Z.z_r10_offset_of_the_given_value, project, rep)
    from .. import rules_ofxget as G
    rep.rule("Z-R11", "a date text typed at the command line reaches the converter as typed (J-R9)")
    rep.run(G.j_r9_dates_given_to_the_converter_as_typed, project, rep)
    rep.run(Z.z_r9_no_value_memo, project, rep)
