"""C08 - improperly nested or truncated markup is never silently accepted (typestate of the builder)."""
from .. import rules_parser as P

EXPLANATION = (
    "Static typestate analysis of ofxtools.Parser.TreeBuilder. The open-element bookkeeping is recognised "
    "structurally (an instance container pushed in start() with the started tag and popped in end()). P-R1: every "
    "path in end() to the underlying ET.TreeBuilder.end is dominated by a ParseError raise guarded by `nothing open "
    "or innermost open tag != closing tag`; no method bypasses the override. P-R2: close() raises while an element "
    "is open and OFXTree.parse returns only parser.close() after feed(). P-R3: a start after the root closed raises. "
    "P-R4: tail text and data after an end tag raise, feed() re-raises. Known-bad idioms (suffix comparison of a "
    "path string) are reported as violations; unknown bookkeeping idioms as ANALYSIS-ERROR. Not decided: anything "
    "about well-formed input (C02)."
)
ASSUMPTIONS = ["ET.TreeBuilder.start/end/close build the tree they are told to build"]


def run(project, rep):
    rep.run(P.p_rules, project, rep)
    rep.run(P.p_r6_every_match_dispatched, project, rep)
    rep.run(P.p_r7_every_match_fed, project, rep)
    rep.run(P.p_r8_single_tokenizer, project, rep)
    rep.run(P.p_r10_no_invented_end, project, rep)
    rep.run(P.p_r13_no_exit_from_finally, project, rep)
    rep.run(P.p_r15_match_patterns_do_not_rebind, project, rep)
    rep.run(P.x_rules, project, rep)
    from .. import rules_header as H
    rep.rule("P-R5", "what reaches the tokenizer is the whole decoded body: parse_header hands the remainder of the source over uncut (H-R1), so stray text after the last end tag is still there to be refused")
    rep.run(H.h_r1, project, rep)
    rep.run(H.h_r3, project, rep)
