"""C06 - a composed request says exactly what the caller asked (composition clauses)."""
from ..schema import Schema
from .. import rules_request as Q

EXPLANATION = (
    "Static analysis of request composition in ofxtools/Client.py against the reconstructed schema. Q-R1: no "
    "parameter of any client method is accepted and dropped. Q-R2: every keyword of every model constructor call "
    "names a declared child of that model and carries the like-named parameter / self attribute / an aggregate of "
    "the child's target class (reaching definitions resolve locals). Q-R3: request tuples <-> wrap_stmtrq handlers "
    "<-> builder parameters <-> message-set list members agree. Q-R4: CLIENTUID / FI decisions in signon(). Q-R5: a "
    "fresh self.uuid per wrapper. Q-R6: the end-tag-less writer only below version 200 and only when asked; header "
    "made for the effective version. Q-R7: the request pipeline only sorts/groups/flattens (no filter, slice, set), "
    "every groupby is fed a sequence sorted by a refining key. Not decided: byte-level well-formedness beyond the "
    "escaping rule of C11/C01, sort stability (stdlib)."
)
ASSUMPTIONS = ["sorted() is stable and itertools.groupby groups adjacent equal keys (stdlib semantics)"]


def run(project, rep):
    schema = Schema(project)
    schema.check_floors()
    rep.run(Q.q_r1_params, project, rep)
    rep.run(Q.q_r2_keywords, project, schema, rep)
    rep.run(Q.q_r3_dispatch, project, schema, rep)
    rep.run(Q.q_r4_signon, project, rep)
    rep.run(Q.q_r5_trnuid, project, schema, rep)
    rep.run(Q.q_r6_serialize, project, rep)
    rep.run(Q.q_r11_explicit_overrides_honoured, project, rep)
    rep.run(Q.q_r12_groupby_groups_consumed_once, project, rep)
    rep.run(Q.q_r13_send_path_leaves_the_request_alone, project, rep)
    rep.run(Q.q_r7_pipeline, project, rep)
    rep.run(Q.q_r10_builders_keep_no_state, project, rep)
    from .. import rules_wire as W
    rep.run(W.l_r2_escaping, project, rep)
    rep.run(W.l_r2_escaping, project, rep, rule="W-R3", reader_decodable=True)
    # "pretty-printing on or off": indent() stores only indentation, only where there was none (W-R7)
    rep.run(W.w_r7_indent, project, rep)
    from .. import rules_dates as Z
    rep.run(Z.z_r7_aware_values_kept, project, rep)
    rep.run(Z.z_r3_writer_shape, project, rep)
    # "parsed back ... date range": the reader gives the .MM minutes of an offset the sign of its hours (Z-R5)
    rep.run(Z.z_r5_offset_sign, project, rep)
    rep.run(Z.z_r5b_sign_of_zero_hours, project, rep)
    from .. import rules_types as T
    rep.rule("Q-R8", "the identifiers written are the identifiers supplied: the string writers return exactly what passed the length check, nothing clipped (T-R3)")
    rep.run(T.t_r3, project, rep)
    rep.run(T.t_r10_supplied_text_kept, project, rep)
    from .. import rules_client as N
    rep.rule("Q-R9", "the sign-on says what the client was configured with: every constructor argument is stored (N-R9); a profile request, which is given no credentials, carries only the placeholder (N-R6)")
    rep.run(N.n_r9_constructor_params, project, rep)
    rep.run(N.n_r6_placeholder, project, rep)
    from .. import rules_values as _V15
    rep.run(_V15.v_r15_no_html5_entity_decoder, project, rep)
    from .. import rules_wire as _W2b
    rep.run(_W2b.l_r2b_every_handwritten_producer_escapes, project, rep)
