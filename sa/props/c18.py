"""C18 - ofxget settings precedence and persistence (tables, precedence structure, persistence discipline)."""
from .. import rules_ofxget as G

EXPLANATION = (
    "Static analysis of ofxtools/scripts/ofxget.py. G-R1: provenance of each ChainMap argument in merge_config (CLI "
    "namespace / user section / DEFAULTS), OFX Home inserted at index -1, FI database read before the user file, "
    "main() merges that parser. G-R2: every args[k] read (incl. loops over constant tuples) and every argparse dest is "
    "a DEFAULTS key. G-R6: options that a configuration source can also set have an effective argparse default of "
    "None (so an absent flag does not outrank the file). G-R3: persistable set, reader and writer handler tables agree "
    "per type, boolean polarity and list separator agree, password not persistable. G-R7: the `same as lower sources` "
    "filter compares with FI-database-else-default. G-R4: nothing stored on a dry run; default CLIENTUID generated "
    "only when absent after reloading the user file. G-R5: '%' escaped. Not decided: list quoting for odd account "
    "ids, multi-run histories beyond these structural clauses, stale entries already in the user's file."
)
ASSUMPTIONS = ["argparse, ChainMap and ConfigParser semantics (trusted stdlib)"]


def run(project, rep):
    rep.run(G.g_rules, project, rep)
    rep.run(G.g_r8_flags_reach_client, project, rep)
    rep.run(G.g_r9_same_section, project, rep)
    rep.run(G.g_r10_only_the_parser_writes, project, rep)
    rep.run(G.g_r11_unreachable_ofxhome_sets_nothing, project, rep)
    rep.run(G.g_r12_fid_repair_keeps_the_element, project, rep)
    rep.run(G.g_r13_nickname_looked_up_as_given, project, rep)
    rep.run(G.g_r14_write_always_writes, project, rep)
    rep.run(G.g_r7b_persist_predicate_table, project, rep)
    from .. import rules_values as V
    rep.run(V.v_r8_token_tables, project, rep, modules_prefix=("ofxtools.scripts.ofxget",))
    from .. import rules_values as _V15
    rep.run(_V15.v_r15_no_html5_entity_decoder, project, rep)
