"""C15 - cached FI profile (write discipline only)."""
from .. import rules_cache as K

EXPLANATION = (
    "Static path and provenance analysis of OFXClient.request_profile - the code-shape part of the property. K-R1 "
    "validate before you overwrite: every cache write / rename is dominated (CFG) by parse + convert of the response, "
    "the status-code check and the not-older-than-cache check, is unreachable on a dry run, and writes the validated "
    "response. K-R2 a write that must be atomic: nothing opens the cache path itself for writing; the temporary name "
    "is per-writer unique, lives next to the cache, and is renamed onto it on every normal path. K-R3 a key that must "
    "identify the server: ORG, FID and URL each contribute unconditionally to the file name (three obligations; URL is "
    "a known finding). K-R4 ask with the date you hold (per-branch reaching definitions on `cache exists`). NOT "
    "decided: histories, crash points and interleavings as such - no static argument in reach bounds them; whether "
    "two concurrent writers can replace a newer profile by an older one is a schedule question and stays open."
)
ASSUMPTIONS = ["os.replace is atomic on one file system", "python is not run with -O (the status / date checks are assert statements)"]


def run(project, rep):
    rep.run(K.k_rules, project, rep)
    rep.run(K.k_r5_every_call_asks_the_server, project, rep)
    rep.run(K.k_r6_stored_reply_carries_a_profile, project, rep)
    from .. import rules_wire as W
    rep.rule("K-R5", "the date asked with is the date held: DTPROFUP is written by format_datetime as date.mmm[offset] with the milliseconds zero-padded on the left (L-R3)")
    rep.run(W.l_r3_datetime, project, rep)
    from .. import rules_dates as Z
    rep.rule("K-R6", "the date held is the date read from the cached profile: offset plumbing of the DateTime reader (Z-R4) and sign of the offset minutes (Z-R5) - a held date read an hour off lets an older profile pass the not-older test")
    rep.run(Z.z_r4_conversion, project, rep)
    rep.run(Z.z_r5_offset_sign, project, rep)
    rep.run(Z.z_r12_zone_table_consistent, project, rep)
    from .. import rules_parser as P
    rep.rule("K-R7", "malformed data fails the call before the cache is touched: a response cut short is refused by the parser - the builder never supplies end tags the data did not contain (P-R10), so a truncated profile cannot be cached as if complete")
    rep.run(P.p_r10_no_invented_end, project, rep)
    rep.run_only(("P-R1",), P.p_rules, project, rep, constructs=("TreeBuilder.end:", "TreeBuilder:open-tags-per-instance"))
