"""C02 - all renderings tokenize to the same tree (regex-AST clauses + leaf/aggregate decision)."""
from .. import rules_parser as P

EXPLANATION = (
    "Static analysis of the tokenizer regex through its syntax tree (re._parser, nothing is matched) and of "
    "feed/_feedmatch/_start. X-R1: tag class covers the OFX tag alphabet and '/' between literal '<' '>'. X-R2: "
    "closetag is an optional back-reference to tag. X-R3: CDATA content is non-greedy 'any character' followed by "
    "the literal ]]> (greedy merges sections; a class excluding ']' drops legal data). X-R4: text is 'everything but "
    "<', trimmed by _groomstring, CDATA verbatim, data handed to the tree unmodified, feed passes its own groups. "
    "X-R5 = P-R4 (tail / text after an end tag raise). X-R6: flag-pruned CFG of _start: every element started once, "
    "a leaf closed exactly once after its data, an empty aggregate with its end tag closed once, an open aggregate "
    "not closed. P-R1..P-R3 (nesting discipline) are included because an accepted mis-nesting re-parents elements. "
    "Not decided: equivalence of renderings over the infinite input space (that needs running the tokenizer)."
)
ASSUMPTIONS = ["re.finditer semantics; ET.TreeBuilder builds the tree it is told to build"]


def run(project, rep):
    rep.run(P.x_rules, project, rep)
    rep.run(P.p_rules, project, rep)
    rep.run(P.p_r6_every_match_dispatched, project, rep)
    rep.run(P.p_r7_every_match_fed, project, rep)
    rep.run(P.p_r8_single_tokenizer, project, rep)
    rep.run(P.p_r10_no_invented_end, project, rep)
    rep.run(P.p_r11_no_element_truthiness, project, rep)
    rep.run(P.p_r14_feed_dispatches_the_current_match, project, rep)
