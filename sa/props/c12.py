"""C12 - headers: field agreement writer/reader/constructor, validation wrapping, routing (partial)."""
from .. import rules_header as H

EXPLANATION = (
    "Static analysis of ofxtools/header.py. B-R1: for both header classes the fields of __str__, the named groups "
    "of the parsing regex (regex syntax tree) and the constructor parameters agree, in order for writer/reader. "
    "B-R2: every parameter is stored under its own name, has a class-level validator and is assigned inside the try "
    "that converts ValueError into OFXHeaderError. B-R3: make_header's routing table and error conversion. B-R4: the "
    "validators' own parameters (OneOf(100)/(200), String(36) UIDs, 3-digit / 2xx versions). B-R5: parse() passes the "
    "captured strings unmodified and raises OFXHeaderError on no match. B-R6: every token a validator admits and the "
    "UID alphabet is inside the language of the corresponding regex group (reader covers writer). Not decided: which "
    "tokens are valid beyond what the validators declare."
)
ASSUMPTIONS = ["the element validators behave as the C10 rules establish - their refusing side (T-R2 required, T-R3 length / membership, T-R4 guard strictness) is re-evaluated here, the rest is C10's"]


def run(project, rep):
    rep.run(H.b_rules, project, rep)
    rep.run(H.b_r14_header_text_built_on_every_call, project, rep)
    rep.run(H.b_r15_only_header_errors_out_of_parse, project, rep)
    from .. import rules_types as T
    rep.rule("B-R10", "the validators the header fields are declared with refuse what is outside their domain (T-R2, T-R3, T-R4)")
    rep.run(T.t_r2, project, rep)
    rep.run(T.t_r3, project, rep)
    rep.run(T.t_r4, project, rep)
    rep.run(T.t_r4b_guards_constant, project, rep)
    rep.rule("B-R12", "what is validated is the text of the file: the header lines are decoded one character per byte, nothing dropped (the chunk clauses of H-R1) - a decoder that leaves bytes out turns `TYPE\\xb91` into the valid token TYPE1")
    rep.run_only(("H-R1",), H.h_r1, project, rep, constructs=("parse_header:rawheader-starts-with-first-line-as-read", "parse_header:rawheader-extended-with-lines-as-read"))
    from .. import rules_request as Q
    rep.rule("B-R13", "the header the client generates is made for the version asked for: a `version` parameter of a request method is never accepted and dropped (the version clause of Q-R1)")
    rep.run_only(("Q-R1",), Q.q_r1_params, project, rep, constructs=lambda c: c.endswith("(version)"))
    rep.rule("B-R15", "the version a client is configured with is not changed by composing a request: no method of the client but the constructor stores self.version (the version clause of Q-R10) - a temporary swap that an exception leaves in place makes every later header of the wrong kind")
    rep.run_only(("Q-R10",), Q.q_r10_builders_keep_no_state, project, rep, constructs=lambda c: ":self.version:" in c or c.endswith("no-state"))
    rep.run(Q.q_r11_explicit_overrides_honoured, project, rep, only=("version",))
