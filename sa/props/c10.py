"""C10 - element type converters: None discipline, limits, wrong types (partial)."""
from .. import rules_types as T

EXPLANATION = (
    "Static analysis of the singledispatchmethod handler tables of ofxtools/Types.py (extracted from decorators and "
    "annotations, inherited along the MRO, reset where a subclass re-declares the family). Rules T-R1..T-R6: dispatch "
    "completeness for None/str/native, every None handler and empty-text path goes through enforce_required, every "
    "String/Integer return comes out of enforce_length and every OneOf return is behind the membership raise (CFG "
    "must-pass-through + reaching definitions, one level of helper/super inlining), the three guards have exactly the "
    "strictness the property states (limit accepted, limit+1 rejected; warn-only strings kept whole), unregistered "
    "types are rejected, Decimal quantizes on read and checks the quantum on write. Not decided: that write-then-read "
    "is the identity / canonical for concrete values (runtime data)."
)
ASSUMPTIONS = ["handlers are registered with the decorator forms @family.register / @family.register(type) inside the class body"]


def run(project, rep):
    rep.run(T.t_r1, project, rep)
    rep.run(T.t_r2, project, rep)
    rep.run(T.t_r11_none_only_for_the_empty_text, project, rep)
    rep.run(T.t_r3, project, rep)
    rep.run(T.t_r4, project, rep)
    rep.run(T.t_r4b_guards_constant, project, rep)
    rep.run(T.t_r5, project, rep)
    rep.run(T.t_r6, project, rep)
    rep.run(T.t_r6b_no_context_arithmetic, project, rep)
    rep.run(T.t_r7, project, rep)
    rep.run(T.t_r10_supplied_text_kept, project, rep)
    from ..schema import Schema
    from .. import rules_values as V
    # the two decode tables of the readers: exactly Y/N by strict lookup (V-R5), single-pass six-entity decoder (V-R6)
    rep.run_only(("V-R5", "V-R6"), V.v_rules, Schema(project), rep)
    from .. import rules_schema as S
    rep.rule("T-R11", "the converter applied to a child is the one its own class declares: the merged class namespace lets a subclass's declaration win (S-R12); every offset the notation allows is admitted (Z-R8); dates typed at the command line reach the converter unedited (J-R9 is C19's / C09's)")
    rep.run(S.s_r12_superdict_precedence, Schema(project), rep)
    from .. import rules_dates as Z
    rep.run(Z.z_r8_offset_domain, project, rep)
    rep.run(Z.z_r9_no_value_memo, project, rep)
    from .. import rules_wire as L
    rep.run(Z.z_r2_naive, project, rep)
    rep.rule("T-R8", "texts that do not denote a date-time / time are rejected when read: the grammar of the two patterns (Z-R1, Z-R1b)")
    rep.run(Z.z_r1_grammar, project, rep)
    rep.run(Z.z_r1b_separators, project, rep)
    rep.rule("T-R9", "what the date-time writer emits is inside the reader's grammar (Z-R3: offset notation, zone-name group)")
    rep.run(Z.z_r3_writer_shape, project, rep)
    rep.run(Z.z_r4_conversion, project, rep)
    rep.run(Z.z_r5_offset_sign, project, rep)
    rep.run(Z.z_r5b_sign_of_zero_hours, project, rep)
    rep.run(Z.z_r6_carrier_date, project, rep)
    rep.run(Z.z_r7_aware_values_kept, project, rep)
    rep.run(L.l_r3_datetime, project, rep)
    from .. import rules_values as _V15
    rep.run(_V15.v_r15_no_html5_entity_decoder, project, rep)
