"""C04 - every declared constraint is enforced on both construction routes (enforcement clauses)."""
from ..schema import Schema
from .. import rules_schema as S
from .. import rules_construct as F
from .. import rules_types as T

EXPLANATION = (
    "Static analysis of the construction funnel. F-R1: no model class bypasses Aggregate.__init__/_convert/from_etree. "
    "F-R2: on every path of Aggregate.__init__ to a normal return validate_args, the per-attribute setattr loop (no "
    "swallowing handler) and _apply_args are passed (CFG must-pass-through), and Element.__set__ stores convert(value). "
    "F-R3: inherited mutex groups are in force in every class (MRO-resolved) and overrides chain to the base (S-R3, "
    "S-R6). F-R4: the reader's order/duplicate/list-membership guards dominate the stores and are strict. F-R5: "
    "counting predicates (<=1 for optional, ==1 for required) over non-None members, raising. Per-type guards "
    "(required/length/digits/membership) are the C10 rules T-R2..T-R5, re-evaluated here. Not decided: concrete "
    "boundary values beyond guard strictness."
)
ASSUMPTIONS = ["python is not run with -O (order/duplicate guards are raise statements, not asserts; ElementList uses asserts only for its single-list-attribute sanity check)"]


def run(project, rep):
    schema = Schema(project)
    schema.check_floors()
    rep.run(S.m1_from_etree, schema, rep)
    rep.run(S.m2_update_args, schema, rep)
    rep.run(S.m4_apply_args, schema, rep)
    rep.run(S.m5_validate_args, schema, rep)
    rep.run(F.f_r1_funnel, schema, rep)
    rep.run(F.f_r2_init, schema, rep)
    rep.rule("F-R3", "inherited mutex groups are in force (S-R3) and validate_args overrides of classes with groups chain to the base (S-R6)")
    rep.run(S.s_r3_mutexes, schema, rep)
    rep.run(S.s_r6_constraints, schema, rep)
    rep.run(S.s_r6d_route_independent_constraints, schema, rep)
    rep.run(S.s_r6g_presence_tables, schema, rep)
    rep.run(S.s_r6h_at_least_one_tables, schema, rep)
    rep.run(S.s_r6f_presence_not_truth, schema, rep)
    rep.run(S.s_r6e_all_equal_helper, schema, rep)
    from .. import rules_purity as E
    rep.run(E.e_r7_reiterable_class_tables, project, rep)
    rep.run(S.s_r10_per_class_tables, schema, rep)
    rep.run(F.f_r4_order, schema, rep)
    from .. import rules_unknown as U
    rep.rule("F-R4b", "the declared order is checked against the document as it was parsed: class-specific groom() overrides do not re-sequence, add or remove children first (U-R9)")
    rep.run(U.u_r9_overrides_only_retag, schema, rep)
    # an unknown tag in between changes nothing for the children after it: the reducer's unknown-tag branch hands back the
    # accumulator it received (U-R1), and in the loop form no carried state is assigned on the way to it (U-R1b)
    rep.run_only(("U-R1",), U.u_rules, schema, rep)
    rep.run(U.u_r1b_loop_state_on_unknown_path, schema, rep)
    rep.run(F.f_r5_counting, schema, rep)
    rep.run(T.t_r2, project, rep)
    rep.run(T.t_r3, project, rep)
    rep.run(T.t_r4, project, rep)
    rep.run(T.t_r4b_guards_constant, project, rep)
    rep.run(T.t_r5, project, rep)
    rep.run(T.t_r7, project, rep)
