"""C16 - shortcuts agree with the full path; misses are clean (typing of the shortcuts + miss discipline)."""
import ast
from ..schema import Schema
from .. import rules_shortcuts as A

EXPLANATION = (
    "Static analysis of Aggregate.__getattr__ and of every @property of every model class, evaluated per concrete "
    "receiver class with a small flow-sensitive type narrowing over the reconstructed schema (isinstance arms, "
    "assert isinstance, for-loops over self, getattr with constant names). A-R1: only AttributeError can escape the "
    "proxy (copy/deepcopy/pickle/hasattr rely on that). A-R2: every typed attribute read is defined on its type, every "
    "isinstance arm can match, request/response `statements` cover corresponding wrappers. A-R3: aliases name "
    "declared children of the right kind. A-R4: OFX.statements/securities visit exactly the message sets that define "
    "the shortcut, in document order. The shortcuts only return attribute reads, so object identity follows from "
    "A-R2/A-R3; runtime identity itself is not executed."
)
ASSUMPTIONS = ["model instances are only mutated through the descriptors (statements properties annotate trnuid/cltcookie on the returned statement, names outside every spec)"]


def run(project, rep):
    schema = Schema(project)
    schema.check_floors()
    rep.run(A.a_r1_getattr, schema, rep)
    rep.run(A.a_r2_r3_properties, schema, rep)
    rep.run(A.a_r4_ofx, schema, rep)
    rep.run(A.a_r5_recomputed_and_picklable, schema, rep)
    rep.run(A.a_r9_default_copy_protocol, schema, rep)
    rep.run(A.a_r6b_classes_defined_where_they_live, schema, rep)
    rep.run(A.a_r3c_statement_shortcut_of_every_statement_wrapper, schema, rep)
    from .. import rules_schema as S
    rep.rule("A-R7", "flat attribute access consults the class's OWN table of sub-aggregates (S-R10: no class-level memo read through inheritance)")
    rep.run(S.s_r10_per_class_tables, schema, rep)
    from .. import rules_purity as E
    rep.rule("A-R8", "a shortcut hands out the model's own objects and leaves the model as it was: no property of a model class changes an object it reached through self (E-R1/E-R2 effect rules, evaluated on the properties only) - `x += more` on a list taken from the model extends the model")
    rep.run_only(("E-R1", "E-R2"), E.e_rules, project, rep, func_filter=lambda modname, qn, cls, fn: modname.startswith("ofxtools.models") and any(isinstance(d, ast.Name) and d.id == "property" for d in fn.decorator_list))
