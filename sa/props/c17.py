"""C17 - parsing, converting and writing are pure, repeatable and thread-safe (effect analysis; sufficient condition)."""
from .. import rules_purity as E

EXPLANATION = (
    "Static effect analysis. Every write effect (attribute/subscript store, del, mutator-method call, setattr, global) "
    "of every function in scope (Types.py, models/**, Parser.py, header.py, utils.py, OFXClient.serialize; thorough: the "
    "whole package) is classified by the provenance of its target with reaching definitions over the function's CFG: "
    "fresh local (allocated in the function, incl. re-binding a parameter to deepcopy), receiver during construction, "
    "per-parse parser object, caller-owned parameter, shared (descriptor / class / module). Shared locations written "
    "AND read in scope (E-R1/E-R3) and parameter mutations (E-R2) are violations unless they are one of the frozen, "
    "reasoned triage entries whose side conditions (who-calls, freshness at every call site, same-key re-registration) "
    "are re-checked on every run; E-R4 covers mutable defaults, shared parser/builder instances and memoising "
    "decorators. No shared location written and read => results depend only on inputs => history- and "
    "schedule-independent, given the stdlib is. This is a sufficient condition: a correct hand-written memo table "
    "would be reported and then has to be triaged with its reason."
)
ASSUMPTIONS = ["stdlib objects the code calls into (ElementTree, re, decimal, datetime, singledispatch lookup) are themselves thread-safe and pure for these uses", "calls are resolved by method name (over-approximation of who-calls)"]


def run(project, rep):
    rep.run(E.e_rules, project, rep, thorough=(rep.tier == "thorough"))
    rep.run(E.e_r5_ownership_and_context, project, rep, thorough=(rep.tier == "thorough"))
    rep.run(E.e_r7_reiterable_class_tables, project, rep)
    rep.run(E.e_r8_memo_keys, project, rep, thorough=(rep.tier == "thorough"))
    rep.run(E.e_r9_no_process_wide_settings, project, rep, thorough=(rep.tier == "thorough"))
    from .. import rules_parser as _P9
    rep.run(_P9.p_r9_convert_built_on_every_call, project, rep)
