"""C05 - the header parser hands over exactly the body, decoded as declared (offset provenance + codec)."""
from .. import rules_header as H

EXPLANATION = (
    "Static provenance analysis of parse_header. H-R1: the string whose regex match end is used as the seek offset "
    "is exactly the concatenation of the chunks read from the source since header_start = source.tell(), each decoded "
    "with a single-byte codec (no character inserted, stripped or re-encoded), the offset is that of "
    "OFXHeaderV1.parse(rawheader), the seek goes to header_start + offset, the body is the rest of the stream "
    "decoded with header.codec. H-R2: codec property returns codecs[charset] on every path; the CHARSET->codec table "
    "is normalised through codecs.lookup and compared with the three character sets the property names. H-R3: the "
    "v2 path rewinds, decodes with OFXHeaderV2.codec and slices the same string the regex searched. Not decided: "
    "which layouts the regexes tolerate on concrete bytes."
)
ASSUMPTIONS = ["BinaryIO.tell/seek/readline semantics; re match offsets index the searched string"]


def run(project, rep):
    rep.run(H.h_rules, project, rep)
    rep.run(H.b_r9_quote_backrefs, project, rep)
    # "header fields equal to those in the file": each constructor parameter is stored under its own name, from its
    # own parameter, as given (B-R2), the validators are the declared ones - any three-digit version, UIDs up to 36 characters (B-R4) - and the patterns admit every header the validators do, the whole UID alphabet included (B-R6); the rest of the B family is C12's
    rep.run_only(("B-R2", "B-R4", "B-R6"), H.b_rules, project, rep)
    rep.run(H.b_r16_optional_header_parts_stay_optional, project, rep)
