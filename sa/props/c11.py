"""C11 - what the serializer writes is lexically valid (lexical clauses)."""
from .. import rules_wire as L
from .. import rules_types as T
from .. import rules_dates as Z

EXPLANATION = (
    "Static analysis of the write side. L-R1: the decimal writer returns a fixed-point rendering behind a raising "
    "non-finite guard. L-R2: taint rule element-text -> output in the hand-written body producer (every read of "
    "elem.text goes through saxutils.escape/html.escape), ET.tostring is the only other producer serialize() uses. "
    "L-R3: Bool writes the inverse of its read mapping, Integer str() after enforce_length, DateTime/Time only "
    "format_datetime(<fixed format>) whose return has the shape strftime + '.' + 3 digits + '[offset]'. Z-R2: a "
    "naive-value refusal on every write path; Z-R3: the offset is written in the reader's notation (sign, split of the absolute offset, two-digit minutes). T-R4: the length guard measures the value itself (exhaustive guard table). T-R3/T-R5: strings/enumerations re-checked on write, unregistered "
    "types rejected. Not decided: the digits of particular values."
)
ASSUMPTIONS = ["ET.tostring escapes & < > in element text (trusted stdlib)"]


def run(project, rep):
    rep.run(L.l_r1_decimal, project, rep)
    rep.run(T.t_r6b_no_context_arithmetic, project, rep)
    rep.run(L.l_r2_escaping, project, rep)
    rep.run(L.l_r3_shapes, project, rep)
    rep.run(L.l_r4_list_elements, project, rep)
    rep.run(Z.z_r2_naive, project, rep)
    rep.run(T.t_r3, project, rep)
    rep.run(T.t_r4, project, rep)
    rep.run(T.t_r4b_guards_constant, project, rep)
    rep.run(T.t_r5, project, rep)
    rep.run(Z.z_r3_writer_shape, project, rep)
    from .. import rules_wire as _W2b
    rep.run(_W2b.l_r2b_every_handwritten_producer_escapes, project, rep)
