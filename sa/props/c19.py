"""C19 - ofxget requests the configured / discovered accounts (request tables + ACTIVE filter)."""
from .. import rules_ofxget as G

EXPLANATION = (
    "Static analysis of request_stmt / request_stmtend / _merge_acctinfo / parse_*acctinfos / init_client. J-R1: each "
    "account option is iterated exactly once and feeds the request kind that belongs to it, accttype is the option's "
    "own name upper-cased and a valid ACCTTYPE of the schema, date keywords take the like-named key convert_datetime "
    "produces, include flags the like-named option, all built requests are passed on, --all merges before the lists "
    "are read, OFXClient parameters come from the like-named options. J-R2: every discovered account id is collected "
    "under _acctIsActive (exactly svcstatus == 'ACTIVE'), dispatcher keys are classes ACCTINFO can contain and cover "
    "the statement account kinds, groupby is fed records sorted by the group key, all records are extracted. Not "
    "decided: the interplay of discovered and configured accounts through the ChainMap for concrete values."
)
ASSUMPTIONS = ["itertools.groupby groups adjacent equal keys; ChainMap lookup order (trusted stdlib)"]


def run(project, rep):
    rep.run(G.j_rules, project, rep)
    rep.run(G.cli_layer_rule, project, rep)
    rep.run(G.j_r9_dates_given_to_the_converter_as_typed, project, rep)
    rep.run(G.j_r10_one_shot_iterators_consumed_once, project, rep)
    rep.run(G.j_r11_unlisted_types_masked, project, rep)
    rep.run(G.acctinfo_layer_rule, project, rep, "J-R1")
    from .. import rules_dates as Z
    rep.rule("J-R4", "the dates given on the command line denote the instants requested: convert_datetime uses the DateTime converter, whose offset plumbing is decided by Z-R4 / Z-R5")
    rep.run(Z.z_r4_conversion, project, rep)
    rep.run(Z.z_r5_offset_sign, project, rep)
    from .. import rules_types as T
    rep.rule("J-R5", "the account id written is the one configured: string writers return exactly what passed the length check (T-R3)")
    rep.run(T.t_r3, project, rep)
    from ..schema import Schema
    from .. import rules_request as Q
    from .. import rules_values as V
    rep.rule("J-R6", "what ofxget hands to the client arrives in the request: every parameter of the request builders is used (Q-R1) and lands in the like-named child of the request aggregate (Q-R2); the tables of account-type options hold the tokens they show (V-R8)")
    schema = Schema(project)
    schema.check_floors()
    rep.run(Q.q_r1_params, project, rep)
    rep.run(Q.q_r2_keywords, project, schema, rep)
    rep.run(V.v_r8_token_tables, project, rep, modules_prefix=("ofxtools.scripts.ofxget",))
    rep.rule("J-R7", "account lists in the configuration file are read item by item whatever blanks follow the commas (the list reader / writer clause of G-R3)")
    rep.run_only(("G-R3",), G.g_rules, project, rep, constructs=("writer[list]/reader[list]",))
    rep.rule("J-R8", "every account option of the command line is stored under the key the request composition reads: each argparse dest (the FIRST long option string names it) and each args[<k>] read is a DEFAULTS key (G-R2)")
    rep.run_only(("G-R2",), G.g_rules, project, rep)
    rep.rule("J-R11", "the configured bank / broker ids and account lists are the USER's where the user set them: the user's file is read after, and so overrides, the bundled FI database (the loading clause of G-R1)")
    rep.run_only(("G-R1",), G.g_rules, project, rep, constructs=("USERCFG.read:",))
    rep.rule("J-R12", "an account option that is not given on the command line does not shadow the accounts configured or discovered: the argparse default of every account option is None (the account clause of G-R6) - `default=[]` is kept by extractns() as a given value, and the empty list then outranks ofxget.cfg and the --all layer")
    rep.run_only(("G-R6",), G.g_rules, project, rep, constructs=lambda c: any(c == f"argparse:{t}:default-None" for t in ("checking", "savings", "moneymrkt", "creditline", "creditcard", "investment", "bankid", "brokerid", "all")))
    rep.run(G.j_r13_account_options_not_greedy, project, rep)
