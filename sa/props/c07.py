"""C07 - unknown and vendor-specific tags never change or break the converted result."""
from ..schema import Schema
from .. import rules_schema as S
from .. import rules_unknown as U

EXPLANATION = (
    "Static path analysis of the reducer in Aggregate._convert and of every groom/ungroom override. U-R1: the handler "
    "of the failed spec lookup only warns and returns the accumulator it received (so collected values and the "
    "ordering state are untouched), nothing is stored or can raise before the lookup succeeded. U-R2: sub-trees are "
    "converted only after a successful lookup (CFG dominance), so unknown content is never converted. U-R3: vendor tags "
    "are removed by groom() or skipped as unknown (disjunctive). U-R4: every groom override returns through the base "
    "implementation and _convert grooms before folding. U-R5: class-specific renames (incl. helpers one/two calls "
    "deep, evaluated with their constant arguments) only look at direct children. Together: an inserted unknown "
    "element or sub-tree contributes nothing to args/kwargs and leaves prev_index/prev_is_listmember as they were."
)
ASSUMPTIONS = ["the tokenizer builds the same tree for known and unknown tags (C02/C08 rules)"]


def run(project, rep):
    schema = Schema(project)
    schema.check_floors()
    rep.run(S.m2_update_args, schema, rep)
    rep.run(U.u_rules, schema, rep)
    rep.run(U.u_r1b_loop_state_on_unknown_path, schema, rep)
    rep.run(U.u_r7_index_deletion, schema, rep)
    rep.run(U.u_r8_nullable_fields, schema, rep)
    rep.run(U.u_r10_tables_indexed_by_tag, schema, rep)
    rep.run(U.u_r11_no_edit_of_the_sequence_being_iterated, schema, rep)
    rep.run(U.u_r12_unknown_tag_text_never_unpacked, schema, rep)
    from .. import rules_header as H
    rep.rule("U-R11", "an unknown aggregate reaches the model layer whole, whatever it contains: the body handed to the tokenizer is the decoded remainder, not cut at an inner `</OFX>` or rewritten (the hand-over clauses of H-R1)")
    rep.run_only(("H-R1",), H.h_r1, project, rep, constructs=("parse_header:body-not-rewritten", "parse_header:v1-body-handed-over-whole"))
    from .. import rules_parser as P
    rep.rule("U-R6", "vendor-prefixed aggregates reach the model layer as sub-trees of their own (so that groom() can drop them whole): the tokenizer's dispatcher starts / ends an element for every tag it matches (P-R6)")
    rep.run(P.p_r6_every_match_dispatched, project, rep)
    rep.run(P.p_r7_every_match_fed, project, rep)
    rep.run(P.x_rules, project, rep)
    rep.run(P.p_rules, project, rep)
    rep.run(P.p_r12_feed_refuses_only_what_it_tokenized, project, rep)
