"""C01 - serialize-then-parse returns the same model (structural necessary conditions only)."""
from ..schema import Schema
from .. import rules_schema as S
from .. import rules_wire as W
from .. import rules_types as T
from .. import rules_request as Q

EXPLANATION = (
    "Static analysis of writer/reader agreement - necessary structural conditions of the round trip, not the "
    "round trip itself. W-R1: writer and reader tag tables and child order agree for all classes (S-R1 names, S-R2 every class found under its tag, S-R4 "
    "list contiguity, S-R5 list kinds, M1..M5 mechanism). W-R2: every abstract element shape for which the "
    "end-tag-less writer omits the end tag is one the reader closes by itself (guards of both sides evaluated over "
    "the 4 shapes). W-R3: element text is escaped on the hand-written wire form and only with entities the reader "
    "decodes. W-R4: converter pairing (T-R1). W-R5: serialize() refuses end-tag-less output for 2xx and makes the "
    "header for the effective version (Q-R6). W-R6: no tag name that ET.tostring(method='html') treats specially. "
    "W-R7: the pretty-printer only writes whitespace where there is none. Not decided: equality of values "
    "(decimal exponent, millisecond rounding, string content) - runtime data."
)
ASSUMPTIONS = ["ET.tostring(method='html') writes start tag, escaped text, children, end tag for every non-special tag name"]


def run(project, rep):
    schema = Schema(project)
    schema.check_floors()
    rep.rule("W-R1", "writer/reader tag tables and child order agree (S-R1, S-R2, S-R4, S-R5, M1..M5)")
    for m_ in (S.m1_from_etree, S.m2_update_args, S.m3_to_etree, S.m4_apply_args, S.m5_validate_args):
        rep.run(m_, schema, rep)
    rep.run(S.s_r1_tags, schema, rep)
    rep.run(S.s_r2_findable, schema, rep)
    rep.run(S.s_r4_contiguity, schema, rep)
    rep.run(S.s_r5_listkinds, schema, rep)
    rep.run(S.s_r6d_route_independent_constraints, schema, rep)
    rep.run(S.s_r10_per_class_tables, schema, rep)
    from .. import rules_construct as FC
    rep.rule("W-R11", "what was written is read: a child whose tag the reader found in the spec is recorded on every path (the recorded-children clause of F-R4) - an empty aggregate the writer emitted is not skipped")
    rep.run_only(("F-R4",), FC.f_r4_order, schema, rep, constructs=("update_args:declared-children-always-recorded",))
    rep.run(W.w_r2_leaf_predicate, project, rep)
    rep.run(W.l_r2_escaping, project, rep)
    rep.run(W.l_r2_escaping, project, rep, rule="W-R3", reader_decodable=True)
    rep.rule("W-R4", "converter pairing: the type a reader produces has a writer (T-R1)")
    rep.run(T.t_r1, project, rep)
    rep.rule("W-R5", "serialize(): end-tag-less only below 200, header for the effective version (Q-R6)")
    rep.run(Q.q_r6_serialize, project, rep)
    rep.run(W.w_r6_html_names, schema, rep)
    rep.run(W.w_r7_indent, project, rep)
    rep.run(T.t_r7, project, rep)
    rep.run(T.t_r6b_no_context_arithmetic, project, rep)
    from .. import rules_parser as P
    rep.run(P.x_rules, project, rep)
    # every round trip starts from a clean reader: the open-tag stack belongs to the instance (the per-instance clause of P-R1)
    rep.run_only(("P-R1",), P.p_rules, project, rep, constructs=("TreeBuilder:open-tags-per-instance",))
    rep.run(W.l_r1_decimal, project, rep)
    from .. import rules_values as V
    rep.rule("W-R10", "what is read back is what was written: the reader's placement, decode tables and entity decoder (V-R1..V-R7; a decoder that decodes twice turns the written '&amp;amp;' into '&')")
    rep.run(V.v_rules, schema, rep)
    from .. import rules_unknown as U
    rep.run(U.u_r9_overrides_only_retag, schema, rep)
    rep.run(T.t_r3, project, rep)
    rep.run(W.l_r3_datetime, project, rep)
    from .. import rules_dates as Z
    rep.rule("W-R9", "date-times survive as instants: writer offset notation inside the reader grammar (Z-R3), field-to-value plumbing (Z-R4), minutes take the sign of the hours (Z-R5)")
    rep.run(Z.z_r3_writer_shape, project, rep)
    rep.run(Z.z_r4_conversion, project, rep)
    rep.run(Z.z_r5_offset_sign, project, rep)
    rep.run(Z.z_r5b_sign_of_zero_hours, project, rep)
    # what the writer emits for a zone in civil use (-12..+14) is not refused by the reader's range tests
    rep.run(Z.z_r8_offset_domain, project, rep)
    rep.run(Z.z_r9_no_value_memo, project, rep)
    rep.run(Z.z_r6_carrier_date, project, rep)
    rep.run(Z.z_r7_aware_values_kept, project, rep)
    from .. import rules_header as H
    rep.rule("W-R8", "the header written for a version is of the kind the reader expects and the body is decoded with the codec the header declares (B-R1, B-R3, B-R6, H-R1..H-R3; the refusing side of the header classes is C12's)")
    rep.run_only(("B-R1", "B-R3", "B-R6"), H.b_rules, project, rep)
    rep.run(H.h_rules, project, rep)
    from .. import rules_values as _V15
    rep.run(_V15.v_r15_no_html5_entity_decoder, project, rep)
    from .. import rules_wire as _W2b
    rep.run(_W2b.l_r2b_every_handwritten_producer_escapes, project, rep)
