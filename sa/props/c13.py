"""C13 - every declared child can be built, written and read back (quantifier: programs; exhaustive)."""
from ..schema import Schema
from .. import rules_schema as S

EXPLANATION = (
    "Static schema analysis. The class model of ofxtools/models is reconstructed from source (C3 MRO, class-body "
    "binding order, star-import/__all__ chain, ChainMap spec order as Aggregate._superdict computes it) and rules "
    "S-R1..S-R8 are evaluated for every exported aggregate class, every declared child and every mutex group; "
    "mechanism rules M1..M5 tie those rules to what from_etree/_convert/to_etree/_apply_args/validate_args in "
    "models/base.py actually do (def-use facts, not text). The space (classes x children x constraints) is finite "
    "and enumerated completely. Not decided: that construction succeeds for particular values."
)
ASSUMPTIONS = [
    "model classes are declared statically in class bodies (no metaclass or setattr-injected children) - the thorough tier cross-checks the reconstructed schema against the imported package",
]


def run(project, rep):
    schema = Schema(project)
    nc, nch, nm = schema.check_floors()
    rep.unit("classes", nc)
    rep.unit("children", nch)
    rep.unit("mutex_groups", nm)
    for m_ in (S.m1_from_etree, S.m2_update_args, S.m3_to_etree, S.m4_apply_args, S.m5_validate_args):
        rep.run(m_, schema, rep)
    rep.run(S.s_r1_tags, schema, rep)
    rep.run(S.s_r2_findable, schema, rep)
    rep.run(S.s_r3_mutexes, schema, rep)
    rep.run(S.s_r4_contiguity, schema, rep)
    rep.run(S.s_r5_listkinds, schema, rep)
    rep.run(S.s_r6_constraints, schema, rep)
    rep.run(S.s_r6d_route_independent_constraints, schema, rep)
    rep.run(S.s_r6g_presence_tables, schema, rep)
    rep.run(S.s_r6h_at_least_one_tables, schema, rep)
    rep.run(S.s_r6f_presence_not_truth, schema, rep)
    rep.run(S.s_r6e_all_equal_helper, schema, rep)
    rep.run(S.s_r12_superdict_precedence, schema, rep)
    rep.run(S.s_r7_shadowing, schema, rep)
    rep.run(S.s_r8_buildable, schema, rep)
    rep.run(S.s_r9_own_descriptor, schema, rep)
    rep.run(S.s_r10_per_class_tables, schema, rep)
    rep.run(S.s_r6c_children_suppliable, schema, rep)
    from .. import rules_unknown as U
    rep.rule("S-R11", "what is written is read back: class-specific groom()/ungroom() overrides only rename elements - none re-sequences, adds or removes children (U-R9), so the written order is the declared order the reader checks")
    rep.run(U.u_r9_overrides_only_retag, schema, rep)
    from .. import rules_purity as E
    rep.rule("S-R11", "every exclusivity group stays in force: the class-level tables are re-iterable (E-R7)")
    rep.run(E.e_r7_reiterable_class_tables, project, rep)
    from .. import rules_values as V
    rep.run(V.v_r8_token_tables, project, rep)
