"""E6 - regex ASTs (re._parser) of the patterns that ARE the tokenizer / date grammar / header
grammar: named groups, exact finite-language enumeration, character classes, structure queries.
Nothing is matched against any input."""
from __future__ import annotations

import ast
import re
from typing import Dict, List, Optional, Set, Tuple

try:  # Python >= 3.11
    import re._parser as sre_parse  # type: ignore
    import re._constants as sre_c  # type: ignore
except ImportError:  # pragma: no cover
    import sre_parse  # type: ignore
    import sre_constants as sre_c  # type: ignore

from .source import AnalysisError, Module, Project, dotted

FLAGS = {"VERBOSE": re.VERBOSE, "X": re.VERBOSE, "IGNORECASE": re.IGNORECASE, "I": re.IGNORECASE, "MULTILINE": re.MULTILINE, "M": re.MULTILINE,
         "DOTALL": re.DOTALL, "S": re.DOTALL, "ASCII": re.ASCII, "A": re.ASCII}


class Regex:
    def __init__(self, pattern: str, flags: int, where: str, node: ast.AST):
        self.pattern, self.flags, self.where, self.node = pattern, flags, where, node
        try:
            self.tree = sre_parse.parse(pattern, flags)
        except Exception as e:
            raise AnalysisError(f"regex at {where} does not parse: {e}")
        self.groups: Dict[str, int] = dict(self.tree.state.groupdict)

    # -- navigation ----------------------------------------------------------
    def find_group(self, name: str):
        """(subpattern items of the named group, path of enclosing constructs)"""
        idx = self.groups.get(name)
        if idx is None:
            return None, None
        return _find(self.tree, idx, [])

    def group_order(self) -> List[str]:
        out = []
        _order(self.tree, {v: k for k, v in self.groups.items()}, out)
        return out

    def language(self, name: str, limit=20000) -> Optional[Set[str]]:
        items, _ = self.find_group(name)
        if items is None:
            return None
        return enumerate_language(items, limit)


def _find(sub, idx, path):
    for op, av in sub:
        if op is sre_c.SUBPATTERN:
            g, add, dele, inner = av
            if g == idx:
                return inner, path
            r = _find(inner, idx, path + [("group", g)])
            if r[0] is not None:
                return r
        elif op in (sre_c.MAX_REPEAT, sre_c.MIN_REPEAT):
            lo, hi, inner = av
            r = _find(inner, idx, path + [("repeat", lo, hi, id(av))])
            if r[0] is not None:
                return r
        elif op is sre_c.BRANCH:
            for i, alt in enumerate(av[1]):
                r = _find(alt, idx, path + [("branch", i, id(av))])
                if r[0] is not None:
                    return r
        elif op in (sre_c.ASSERT, sre_c.ASSERT_NOT):
            r = _find(av[1], idx, path + [("assert",)])
            if r[0] is not None:
                return r
    return None, None


def _order(sub, names, out):
    for op, av in sub:
        if op is sre_c.SUBPATTERN:
            g, add, dele, inner = av
            if g in names:
                out.append(names[g])
            _order(inner, names, out)
        elif op in (sre_c.MAX_REPEAT, sre_c.MIN_REPEAT):
            _order(av[2], names, out)
        elif op is sre_c.BRANCH:
            for alt in av[1]:
                _order(alt, names, out)


def charset(items) -> Optional[Set[str]]:
    """the set of single characters an IN / LITERAL / category item matches (ASCII universe)"""
    out: Set[str] = set()
    negate = False
    for op, av in items:
        if op is sre_c.NEGATE:
            negate = True
        elif op is sre_c.LITERAL:
            out.add(chr(av))
        elif op is sre_c.RANGE:
            out |= {chr(c) for c in range(av[0], av[1] + 1)}
        elif op is sre_c.CATEGORY:
            if av is sre_c.CATEGORY_DIGIT:
                out |= set("0123456789")
            elif av is sre_c.CATEGORY_WORD:
                out |= set("abcdefghijklmnopqrstuvwxyzABCDEFGHIJKLMNOPQRSTUVWXYZ0123456789_")
            elif av is sre_c.CATEGORY_SPACE:
                out |= set(" \t\n\r\f\v")
            elif av is sre_c.CATEGORY_NOT_SPACE:
                out |= {chr(c) for c in range(128)} - set(" \t\n\r\f\v")
            elif av is sre_c.CATEGORY_NOT_DIGIT:
                out |= {chr(c) for c in range(128)} - set("0123456789")
            elif av is sre_c.CATEGORY_NOT_WORD:
                out |= {chr(c) for c in range(128)} - set("abcdefghijklmnopqrstuvwxyzABCDEFGHIJKLMNOPQRSTUVWXYZ0123456789_")
            else:
                return None
        else:
            return None
    if negate:
        return {chr(c) for c in range(128)} - out
    return out


def enumerate_language(items, limit=20000) -> Optional[Set[str]]:
    """exact language of a bounded sub-pattern, or None when unbounded / too large / not understood"""
    langs: Set[str] = {""}
    for op, av in items:
        if op is sre_c.LITERAL:
            cur = {chr(av)}
        elif op is sre_c.IN:
            cs = charset(av)
            if cs is None:
                return None
            cur = cs
        elif op is sre_c.ANY:
            return None
        elif op is sre_c.SUBPATTERN:
            cur = enumerate_language(av[3], limit)
        elif op is sre_c.BRANCH:
            cur = set()
            for alt in av[1]:
                l = enumerate_language(alt, limit)
                if l is None:
                    return None
                cur |= l
        elif op in (sre_c.MAX_REPEAT, sre_c.MIN_REPEAT):
            lo, hi, inner = av
            if hi is sre_c.MAXREPEAT or hi > 8:
                return None
            base = enumerate_language(inner, limit)
            if base is None:
                return None
            cur = set()
            for k in range(lo, hi + 1):
                acc = {""}
                for _ in range(k):
                    acc = {a + b for a in acc for b in base}
                    if len(acc) > limit:
                        return None
                cur |= acc
        elif op is sre_c.AT:
            cur = {""}
        else:
            return None
        if cur is None:
            return None
        langs = {a + b for a in langs for b in cur}
        if len(langs) > limit:
            return None
    return langs


def unbounded_items(sub, path=()):
    """every repeat with no upper bound: (op, inner items, path)"""
    out = []
    for i, (op, av) in enumerate(sub):
        if op in (sre_c.MAX_REPEAT, sre_c.MIN_REPEAT):
            lo, hi, inner = av
            if hi is sre_c.MAXREPEAT:
                out.append((op, inner, path + (i,), sub))
            out += unbounded_items(inner, path + (i,))
        elif op is sre_c.SUBPATTERN:
            out += unbounded_items(av[3], path + (i,))
        elif op is sre_c.BRANCH:
            for alt in av[1]:
                out += unbounded_items(alt, path + (i,))
    return out


# --------------------------------------------------------------------------
def _flags_of(node, mod: Module) -> int:
    if node is None:
        return 0
    if isinstance(node, ast.BinOp) and isinstance(node.op, ast.BitOr):
        return _flags_of(node.left, mod) | _flags_of(node.right, mod)
    d = dotted(node)
    if d and d.split(".")[-1] in FLAGS:
        return FLAGS[d.split(".")[-1]]
    if isinstance(node, ast.Constant) and isinstance(node.value, int):
        return node.value
    raise AnalysisError(f"regex flags {ast.unparse(node)} not understood")


def compiled_regex(p: Project, modname: str, value: ast.AST, where: str, env=None) -> Regex:
    """Regex for an `re.compile(<const>, flags)` expression"""
    if not (isinstance(value, ast.Call) and (dotted(value.func) or "").endswith("compile") and value.args):
        raise AnalysisError(f"{where}: not an re.compile(...) call")
    pat = value.args[0]
    if isinstance(pat, ast.Constant) and isinstance(pat.value, str):
        text_ = pat.value
    else:
        # a pattern put together from module-level string constants (concatenation, join, f-string of constants)
        from .fold import fold

        text_ = fold(pat, dict(env or {}), p, modname)
        if not isinstance(text_, str):
            raise AnalysisError(f"{where}: regex pattern is not a string constant")
    flags = value.args[1] if len(value.args) > 1 else next((k.value for k in value.keywords if k.arg == "flags"), None)
    return Regex(text_, _flags_of(flags, p.module(modname)), where, value)


def module_regex(p: Project, modname: str, name: str) -> Regex:
    m = p.module(modname)
    for bname, kind, payload in reversed(m.bindings):
        if bname == name and kind == "assign":
            return compiled_regex(p, modname, payload, f"{m.relpath}:{payload.lineno}")
    raise AnalysisError(f"regex {name} not found in {modname}")


def class_regex(p: Project, modname: str, clsname: str, attr: str = "regex") -> Regex:
    ci = p.get_class(modname, clsname)
    a = ci.attrs.get(attr)
    if a is None or a[0] != "expr":
        raise AnalysisError(f"{clsname}.{attr} not found")
    v = a[1]
    if isinstance(v, ast.Name):
        return module_regex(p, modname, v.id)
    # constants of the class body the pattern may be generated from (a table of fields, fragments)
    from .fold import fold
    from .source import UNK

    env = {}
    for st in ci.node.body:
        if isinstance(st, ast.Assign) and len(st.targets) == 1 and isinstance(st.targets[0], ast.Name) and st.targets[0].id != attr:
            fv = fold(st.value, dict(env), p, modname)
            if fv is not UNK:
                env[st.targets[0].id] = fv
    return compiled_regex(p, modname, v, f"{p.module(modname).relpath}:{v.lineno}", env)
