"""E4 - intraprocedural definitions, reaching definitions over the CFG, expression expansion
and write-effect enumeration."""
from __future__ import annotations

import ast
import copy
from typing import Dict, List, Optional, Set, Tuple

from .cfg import CFG, Node


class Def:
    """One binding of a local name.  `value` is the bound expression when it is a plain
    assignment; otherwise `kind` says how the name was bound."""

    __slots__ = ("name", "kind", "value", "stmt", "index")

    def __init__(self, name, kind, value, stmt, index=None):
        self.name, self.kind, self.value, self.stmt, self.index = name, kind, value, stmt, index

    def __repr__(self):
        v = ast.unparse(self.value) if isinstance(self.value, ast.AST) else self.value
        return f"<def {self.name} {self.kind} {v}>"


def params_of(fn) -> List[str]:
    a = fn.args
    out = [x.arg for x in a.posonlyargs + a.args + a.kwonlyargs]
    if a.vararg:
        out.append(a.vararg.arg)
    if a.kwarg:
        out.append(a.kwarg.arg)
    return out


def _targets(t, value, stmt, kind, out, index=None):
    if isinstance(t, ast.Name):
        out.append(Def(t.id, kind, value, stmt, index))
    elif isinstance(t, (ast.Tuple, ast.List)):
        for i, e in enumerate(t.elts):
            if isinstance(e, ast.Starred):
                e = e.value
            if isinstance(value, (ast.Tuple, ast.List)) and len(value.elts) == len(t.elts) and kind == "assign":
                _targets(e, value.elts[i], stmt, "assign", out)
            else:
                _targets(e, value, stmt, "unpack" if kind == "assign" else kind, out, i)


def defs_in_stmt(st) -> List[Def]:
    """names bound by the statement header itself (not by nested blocks)"""
    out: List[Def] = []
    if isinstance(st, ast.Assign):
        for t in st.targets:
            _targets(t, st.value, st, "assign", out)
    elif isinstance(st, ast.AnnAssign):
        if st.value is not None:
            _targets(st.target, st.value, st, "assign", out)
    elif isinstance(st, ast.AugAssign):
        _targets(st.target, st, st, "augassign", out)
    elif isinstance(st, (ast.For, ast.AsyncFor)):
        _targets(st.target, st.iter, st, "for", out)
    elif isinstance(st, (ast.With, ast.AsyncWith)):
        for i in st.items:
            if i.optional_vars is not None:
                _targets(i.optional_vars, i.context_expr, st, "with", out)
    elif isinstance(st, ast.ExceptHandler):
        if st.name:
            out.append(Def(st.name, "except", st.type, st))
    elif isinstance(st, (ast.FunctionDef, ast.AsyncFunctionDef, ast.ClassDef)):
        out.append(Def(st.name, "def", st, st))
    elif isinstance(st, (ast.Import, ast.ImportFrom)):
        for a in st.names:
            out.append(Def((a.asname or a.name).split(".")[0], "import", st, st))
    # walrus anywhere in the header expressions
    for e in _header_exprs(st):
        for x in ast.walk(e):
            if isinstance(x, ast.NamedExpr) and isinstance(x.target, ast.Name):
                out.append(Def(x.target.id, "assign", x.value, st))
    return out


def _header_exprs(st):
    if isinstance(st, (ast.If, ast.While)):
        return [st.test]
    if isinstance(st, (ast.For, ast.AsyncFor)):
        return [st.iter]
    if isinstance(st, (ast.With, ast.AsyncWith)):
        return [i.context_expr for i in st.items]
    if isinstance(st, (ast.Try, ast.ExceptHandler, ast.FunctionDef, ast.AsyncFunctionDef, ast.ClassDef)):
        return []
    return [st]


def own_statements(fn):
    """all statements of fn excluding bodies of nested defs/classes"""
    out = []

    def walk(body):
        for st in body:
            out.append(st)
            if isinstance(st, (ast.FunctionDef, ast.AsyncFunctionDef, ast.ClassDef)):
                continue
            for fld in ("body", "orelse", "finalbody"):
                sub = getattr(st, fld, None)
                if isinstance(sub, list):
                    walk(sub)
            for h in getattr(st, "handlers", []) or []:
                out.append(h)
                walk(h.body)

    walk(fn.body)
    return out


def own_nodes(fn):
    """every AST node evaluated by fn itself (nested function/class bodies and lambdas excluded)"""
    out = []
    stack = list(fn.body)
    while stack:
        n = stack.pop()
        out.append(n)
        if isinstance(n, (ast.FunctionDef, ast.AsyncFunctionDef, ast.ClassDef)):
            stack.extend(n.decorator_list)
            continue
        if isinstance(n, ast.Lambda):
            continue
        stack.extend(ast.iter_child_nodes(n))
    return out


def local_defs(fn) -> Dict[str, List[Def]]:
    d: Dict[str, List[Def]] = {}
    for p in params_of(fn):
        d.setdefault(p, []).append(Def(p, "param", None, fn))
    for st in own_statements(fn):
        for df in defs_in_stmt(st):
            d.setdefault(df.name, []).append(df)
    return d


def clone(node):
    """fresh copy of an expression AST (the module trees carry parent links, so copy.deepcopy
    would drag the whole module along)"""
    if isinstance(node, ast.expr):
        src = ast.unparse(node)
        try:
            return ast.parse(src, mode="eval").body
        except SyntaxError:
            # e.g. a Starred expression: only valid inside a call / display
            return ast.parse(f"_({src})", mode="eval").body.args[0]
    return ast.parse(ast.unparse(node)).body[0]


def expand(expr, fn, max_depth=8, _defs=None, _seen=None):
    """copy of `expr` in which every local name with exactly one plain assignment is replaced
    by (the expansion of) its defining expression.  Flow-insensitive; used to look through
    trivial aliases (`x = self.foo; use(x)`)."""
    defs = _defs if _defs is not None else local_defs(fn)
    seen = _seen or frozenset()

    class T(ast.NodeTransformer):
        def visit_Name(self, node):
            if not isinstance(node.ctx, ast.Load):
                return node
            ds = defs.get(node.id, [])
            if len(ds) == 1 and ds[0].kind == "assign" and isinstance(ds[0].value, ast.AST) and node.id not in seen and len(seen) < max_depth:
                return expand(ds[0].value, fn, max_depth, defs, seen | {node.id})
            # bound in several places, every time to the same expression (`raw = src.readline()` in two loops)
            if len(ds) > 1 and all(d.kind == "assign" and isinstance(d.value, ast.AST) for d in ds) and node.id not in seen and len(seen) < max_depth:
                texts = {ast.unparse(d.value) for d in ds}
                if len(texts) == 1 and not any(isinstance(x, ast.Name) and x.id == node.id for x in ast.walk(ds[0].value)):
                    return expand(ds[0].value, fn, max_depth, defs, seen | {node.id})
            return node

        def visit_Lambda(self, node):
            return node

    return T().visit(clone(expr))


# --------------------------------------------------------------------------
# reaching definitions on the CFG
# --------------------------------------------------------------------------
def node_defs(node: Node) -> List[Def]:
    st = node.stmt
    if st is None:
        return []
    if node.kind in ("test", "loop"):
        # only walrus bindings in the header
        return [d for d in defs_in_stmt(st) if d.kind == "assign" and not isinstance(st, (ast.Assign, ast.AnnAssign))]
    if node.kind == "looptarget":
        return [d for d in defs_in_stmt(st) if d.kind == "for"]
    if node.kind == "with":
        return defs_in_stmt(st)
    if node.kind == "except":
        return defs_in_stmt(st)
    if node.kind in ("join", "handlers"):
        return []
    return defs_in_stmt(st)


class Reaching:
    """classic forward may-analysis; facts are (name, Def) pairs"""

    def __init__(self, cfg: CFG, edge_filter=None):
        self.cfg = cfg
        fn = cfg.fn
        self.param_defs = [Def(p, "param", None, fn) for p in params_of(fn)]
        self.gen: Dict[int, List[Def]] = {n.id: node_defs(n) for n in cfg.nodes}
        self.IN: Dict[int, Set[Def]] = {n.id: set() for n in cfg.nodes}
        self.OUT: Dict[int, Set[Def]] = {n.id: set() for n in cfg.nodes}
        self.OUT[cfg.entry.id] = set(self.param_defs)
        preds: Dict[int, List[Tuple[int, str]]] = {n.id: [] for n in cfg.nodes}
        live = cfg.reachable(cfg.entry.id, edge_filter=edge_filter)
        self.live = live
        for a, outs in cfg.succ.items():
            if a not in live:
                continue
            for b, lab in outs:
                if edge_filter and not edge_filter(cfg.nodes[a], cfg.nodes[b], lab):
                    continue
                preds[b].append((a, lab))
        work = [n.id for n in cfg.nodes if n.id in live]
        succs: Dict[int, List[int]] = {n.id: [] for n in cfg.nodes}
        for b, ps in preds.items():
            for a, _ in ps:
                succs[a].append(b)
        while work:
            nid = work.pop()
            if nid != cfg.entry.id:
                new_in: Set[Def] = set()
                for a, lab in preds[nid]:
                    if lab == "may-raise":
                        # the statement may have raised before or after its own binding took effect
                        new_in |= self.IN[a] | self.OUT[a]
                    else:
                        new_in |= self.OUT[a]
                self.IN[nid] = new_in
            else:
                new_in = set(self.param_defs)
                self.IN[nid] = new_in
            killed = {d.name for d in self.gen[nid]}
            new_out = {d for d in new_in if d.name not in killed} | set(self.gen[nid])
            if new_out != self.OUT[nid]:
                self.OUT[nid] = new_out
                work.extend(succs[nid])

    def defs_at(self, node: Node, name: str) -> List[Def]:
        return [d for d in self.IN[node.id] if d.name == name]


def resolve_values(expr, node: Node, reach: Reaching, depth=6, _seen=None) -> List[ast.AST]:
    """the set of expressions `expr` may evaluate (as an alias) at `node`: a Name whose reaching
    definitions are plain assignments is replaced by their values, transitively.  Anything else
    is returned as is.  A parameter yields the Name itself."""
    seen = _seen or set()
    if isinstance(expr, ast.Name) and depth > 0:
        ds = reach.defs_at(node, expr.id)
        if not ds:
            return [expr]
        out: List[ast.AST] = []
        for d in ds:
            if d.kind == "assign" and isinstance(d.value, ast.AST) and id(d) not in seen:
                dn = reach.cfg.node_of(d.stmt)
                if dn is None:
                    out.append(d.value)
                else:
                    out.extend(resolve_values(d.value, dn, reach, depth - 1, seen | {id(d)}))
            else:
                out.append(_marker(d))
        return out
    return [expr]


def _marker(d: Def) -> ast.AST:
    n = ast.Name(id=d.name, ctx=ast.Load())
    n._def = d  # type: ignore[attr-defined]
    return n


def names_in(expr) -> Set[str]:
    return {x.id for x in ast.walk(expr) if isinstance(x, ast.Name)}


def root_name(expr) -> Optional[str]:
    """leftmost name of an attribute / subscript / call chain"""
    while True:
        if isinstance(expr, ast.Attribute):
            expr = expr.value
        elif isinstance(expr, ast.Subscript):
            expr = expr.value
        elif isinstance(expr, ast.Call):
            expr = expr.func
        elif isinstance(expr, ast.Starred):
            expr = expr.value
        else:
            break
    return expr.id if isinstance(expr, ast.Name) else None


# --------------------------------------------------------------------------
# write effects
# --------------------------------------------------------------------------
MUTATORS = {
    "append", "extend", "insert", "remove", "pop", "clear", "sort", "reverse", "update", "setdefault",
    "popitem", "add", "discard", "register", "write", "writelines", "seek", "truncate", "set",
    "__setitem__", "__setattr__", "__delitem__", "appendleft", "send", "put",
}


class Write:
    __slots__ = ("kind", "target", "node", "stmt")

    def __init__(self, kind, target, node, stmt):
        self.kind, self.target, self.node, self.stmt = kind, target, node, stmt

    def __repr__(self):
        return f"<write {self.kind} {ast.unparse(self.target)}>"


def writes_in(fn) -> List[Write]:
    """every store through an attribute/subscript, `del`, mutator-method call, setattr/delattr,
    global/nonlocal declaration in fn's own body"""
    out: List[Write] = []
    for st in own_statements(fn):
        targets = []
        if isinstance(st, ast.Assign):
            targets = list(st.targets)
        elif isinstance(st, (ast.AugAssign, ast.AnnAssign)):
            targets = [st.target] if getattr(st, "value", True) is not None else []
        elif isinstance(st, (ast.For, ast.AsyncFor)):
            targets = [st.target]
        elif isinstance(st, (ast.With, ast.AsyncWith)):
            targets = [i.optional_vars for i in st.items if i.optional_vars is not None]
        elif isinstance(st, ast.Delete):
            for t in st.targets:
                if isinstance(t, (ast.Attribute, ast.Subscript)):
                    out.append(Write("del", t, t, st))
        elif isinstance(st, (ast.Global, ast.Nonlocal)):
            for n in st.names:
                out.append(Write("global" if isinstance(st, ast.Global) else "nonlocal", ast.Name(id=n, ctx=ast.Store()), st, st))
        if isinstance(st, ast.AugAssign) and isinstance(st.target, ast.Name) and isinstance(st.op, (ast.Add, ast.BitOr)) and not isinstance(st.value, (ast.Constant, ast.JoinedStr, ast.BinOp, ast.UnaryOp)) \
                and not (isinstance(st.value, ast.Call) and isinstance(st.value.func, ast.Name) and st.value.func.id in ("len", "int", "str", "sum", "float", "abs", "min", "max", "format", "repr", "chr")) \
                and not (isinstance(st.value, ast.Call) and isinstance(st.value.func, ast.Attribute) and st.value.func.attr in ("decode", "format", "join", "strip", "lstrip", "rstrip", "lower", "upper", "replace", "strftime", "title", "zfill", "encode", "hex", "total_seconds", "count")):
            # `x += <sequence>` on a list / set / dict extends the object x names IN PLACE (an alias of a caller's or the
            # instance's list is changed); on numbers and strings it merely re-binds - the provenance rules sort it out
            out.append(Write("call:__iadd__", ast.copy_location(ast.Name(id=st.target.id, ctx=ast.Load()), st.target), st, st))
        flat = []
        for t in targets:
            if isinstance(t, (ast.Tuple, ast.List)):
                flat.extend(t.elts)
            else:
                flat.append(t)
        for t in flat:
            if isinstance(t, ast.Starred):
                t = t.value
            if isinstance(t, ast.Attribute):
                out.append(Write("attr", t, t, st))
            elif isinstance(t, ast.Subscript):
                out.append(Write("item", t, t, st))
        for e in _header_exprs(st):
            for x in _walk_no_lambda(e):
                if isinstance(x, ast.Call):
                    f = x.func
                    if isinstance(f, ast.Attribute) and f.attr in MUTATORS:
                        out.append(Write("call:" + f.attr, f.value, x, st))
                    elif isinstance(f, ast.Name) and f.id in ("setattr", "delattr") and x.args:
                        out.append(Write("call:" + f.id, x.args[0], x, st))
    return out


def _walk_no_lambda(e):
    stack = [e]
    while stack:
        n = stack.pop()
        yield n
        if isinstance(n, ast.Lambda):
            continue
        stack.extend(ast.iter_child_nodes(n))
