"""Date-time rules Z-R1..5 (C09): exact languages of the fixed-width groups, rejection on mismatch,
naive-value refusal (disjunctive), writer shape inside the reader's grammar."""
from __future__ import annotations

import ast
from typing import List, Optional, Set

from . import dispatch as D
from . import rx
from .cfg import CFG
from .dataflow import own_nodes, own_statements, params_of
from .match import Expander, norm, text
from .report import Report
from .rules_types import Flow, scalar_types, tloc
from .source import AnalysisError, Project

TYPES = D.TYPES


def _two(n_from, n_to):
    return {f"{i:02d}" for i in range(n_from, n_to + 1)}


EXPECTED = {
    "month": _two(1, 12), "day": _two(1, 31), "hour": _two(0, 23), "minute": _two(0, 59), "second": _two(0, 60),
    "millisecond": {f"{i:03d}" for i in range(1000)}, "year": {f"{i:04d}" for i in range(10000)},
}


def z_r1_grammar(p: Project, rep: Report):
    rep.rule("Z-R1", "the language of each fixed-width group of DT_REGEX and TIME_REGEX, enumerated exactly from the regex syntax tree, equals the OFX range (month 01-12, day 01-31, hour 00-23, minute 00-59, second 00-60, 4-digit year, 3-digit millisecond); both patterns are anchored at both ends, hour/minute/second are all-or-nothing, nothing unbounded occurs outside the [offset] bracket, and a failed match raises")
    scal, _ = scalar_types(p)
    for clsname, groups in (("DateTime", ["year", "month", "day", "hour", "minute", "second", "millisecond"]), ("Time", ["hour", "minute", "second", "millisecond"])):
        r = rx.class_regex(p, TYPES, clsname)
        for g in groups:
            lang = r.language(g)
            want = EXPECTED[g]
            if lang is None:
                rep.check("Z-R1", f"{clsname}.regex:{g}", False, f"group '{g}' is missing or its language is unbounded", r.where)
                continue
            extra, missing = sorted(lang - want), sorted(want - lang)
            rep.check("Z-R1", f"{clsname}.regex:{g}", not extra and not missing,
                      f"group '{g}' accepts {extra[:6]}{'...' if len(extra) > 6 else ''} outside the OFX range and rejects {missing[:6]} inside it" if (extra or missing) else f"{len(lang)} strings", r.where)
        # anchors
        items = list(r.tree)
        first, last = items[0], items[-1]
        ok = first[0] is rx.sre_c.AT and first[1] in (rx.sre_c.AT_BEGINNING, rx.sre_c.AT_BEGINNING_STRING) and last[0] is rx.sre_c.AT and last[1] in (rx.sre_c.AT_END, rx.sre_c.AT_END_STRING)
        rep.check("Z-R1", f"{clsname}.regex:anchored", ok, "the pattern is not anchored at both ends: trailing or leading garbage is accepted" if not ok else "", r.where)
        ok = not (r.flags & (rx.re.MULTILINE | rx.re.IGNORECASE))
        rep.check("Z-R1", f"{clsname}.regex:flags", ok, "MULTILINE/IGNORECASE change what the anchors and classes accept" if not ok else "", r.where)
        # group order
        order = [g for g in r.group_order() if g in groups]
        rep.check("Z-R1", f"{clsname}.regex:field-order", order == groups, f"fields occur as {order}, expected {groups}" if order != groups else "", r.where)
        # hour/minute/second share one optional group (all or nothing)
        paths = [r.find_group(g)[1] for g in ("hour", "minute", "second")]
        ok = all(pp is not None for pp in paths) and paths[0] == paths[1] == paths[2]
        rep.check("Z-R1", f"{clsname}.regex:time-all-or-nothing", ok, "hour, minute and second are not in one common (optional) group: partial times are accepted" if not ok else "", r.where)
        # mandatory parts: date fields (DateTime) / time fields (Time) are not inside an optional repeat
        mand = ["year", "month", "day"] if clsname == "DateTime" else ["hour", "minute", "second"]
        for g in mand:
            _, path = r.find_group(g)
            opt = path is not None and any(x[0] == "repeat" and x[1] == 0 for x in path)
            rep.check("Z-R1", f"{clsname}.regex:{g}-mandatory", path is not None and not opt, f"'{g}' is optional" if (path is None or opt) else "", r.where)
        # unbounded items only inside the bracket
        for op, inner, path, seq in rx.unbounded_items(r.tree):
            # find the enclosing sequence containing a literal '['
            inside = _inside_bracket(r.tree, path)
            rep.check("Z-R1", f"{clsname}.regex:unbounded@{'.'.join(map(str, path))}", inside, "an unbounded repeat outside the [offset:name] bracket accepts texts of any length" if not inside else "", r.where)
    # failed match raises
    dt = scal["DateTime"]
    h = D.family(dt, "convert").get("str")
    if h is None:
        raise AnalysisError("DateTime str reader not found")
    cfg = h.cfg
    guards = [n for n in cfg.nodes if n.kind == "test" and any(isinstance(s, ast.Raise) for s in n.stmt.body) and text(norm(n.stmt.test)) in ("match is None", "not match")]
    uses = [n for n in cfg.nodes if any(isinstance(x, ast.Attribute) and x.attr in ("groupdict", "group", "groups") for e in n.exprs() for x in ast.walk(e))]
    ok = bool(guards) and bool(uses) and all(cfg.dominated_by(u.id, [g.id for g in guards]) for u in uses)
    rep.check("Z-R1", "DateTime._convert_str:no-match-raises", ok, "a text that does not match the grammar is not rejected before its fields are used" if not ok else "", tloc(p, h.fn))
    ex = Expander(h.fn)
    m = [s for s in own_statements(h.fn) if isinstance(s, ast.Assign) and isinstance(s.value, ast.Call) and isinstance(s.value.func, ast.Attribute) and s.value.func.attr in ("match", "fullmatch", "search")]
    ok = bool(m) and all(text(s.value.func.value) == "self.regex" and s.value.func.attr in ("match", "fullmatch") for s in m)
    rep.check("Z-R1", "DateTime._convert_str:matches-self.regex", ok, "the text is not matched (anchored) against self.regex" if not ok else "", tloc(p, h.fn))
    # Time uses the same reader with its own regex
    t = scal["Time"]
    v = t.attrs.get("regex")
    rep.check("Z-R1", "Time.regex:is-TIME_REGEX", v is not None and text(v[1]) == "TIME_REGEX", "Time does not use TIME_REGEX" if not (v is not None and text(v[1]) == "TIME_REGEX") else "", tloc(p, t.node))


def _inside_bracket(tree, path) -> bool:
    """is the item at `path` preceded, in one of its enclosing sequences, by a literal '['"""
    seq = tree
    for depth, idx in enumerate(path):
        items = list(seq)
        if any(op is rx.sre_c.LITERAL and av == ord("[") for op, av in items[:idx]):
            return True
        op, av = items[idx]
        if op is rx.sre_c.SUBPATTERN:
            seq = av[3]
        elif op in (rx.sre_c.MAX_REPEAT, rx.sre_c.MIN_REPEAT):
            seq = av[2]
        elif op is rx.sre_c.BRANCH:
            # path continues inside one alternative; search all
            return any(_inside_bracket(alt, path[depth + 1:]) for alt in av[1])
        else:
            return False
    return False


def _naive_guards(cfg: CFG) -> List[int]:
    out = []
    for n in cfg.nodes:
        if n.kind == "test" and any(isinstance(s, ast.Raise) for s in n.stmt.body):
            t = text(norm(n.stmt.test))
            if "utcoffset() is None" in t or "utcoffset is None" in t or "tzinfo is None" in t:
                out.append(n.id)
    return out


def z_r2_naive(p: Project, rep: Report):
    rep.rule("Z-R2", "naive values are refused: on every path from a DateTime/Time write handler to the formatted text there is a raise guarded by `utcoffset() is None` - in the handler or in format_datetime (either suffices); the native-type readers (_convert_datetime/_convert_time) refuse naive values too")
    scal, _ = scalar_types(p)
    fd = p.get_function(TYPES, "format_datetime").node
    fcfg = CFG(fd)
    fguards = _naive_guards(fcfg)
    frets = [n.id for n in fcfg.nodes if n.kind == "return"]
    # the guard in format_datetime must test the value that is formatted: `utcoffset = value.utcoffset()` of the parameter
    fd_ok = bool(fguards) and bool(frets) and fcfg.must_pass_through(frets, fguards)
    if fd_ok:
        ex = Expander(fd)
        vp = params_of(fd)[1]
        fd_ok = any(f"{vp}.utcoffset() is None" in ex.t(fcfg.nodes[g].stmt.test) for g in fguards)
    for name in ("DateTime", "Time"):
        ci = scal[name]
        nk = D.native_key(ci)
        h = D.family(ci, "unconvert").handler_for_native(nk)
        if h is None:
            continue
        cfg = h.cfg
        guards = _naive_guards(cfg)
        rets = [n.id for n in cfg.nodes if n.kind == "return"]
        own_ok = bool(guards) and bool(rets) and cfg.must_pass_through(rets, guards)
        if own_ok:
            vp = h.value_param()
            own_ok = any(f"{vp}.utcoffset() is None" in text(norm(cfg.nodes[g].stmt.test)) for g in guards)
        via_fd = all(isinstance(cfg.nodes[r].stmt.value, ast.Call) and text(cfg.nodes[r].stmt.value.func) == "format_datetime" for r in rets) and bool(rets)
        ok = own_ok or (via_fd and fd_ok)
        rep.check("Z-R2", f"{name}.unconvert[{nk}]:naive-refused", ok, f"a naive {nk} can be written: neither {h.qualname} nor format_datetime raises on utcoffset() is None on every path" if not ok else ("in handler" if own_ok else "in format_datetime"), tloc(p, h.fn))
        # reader for the native type
        hc = D.family(ci, "convert").handler_for_native(nk)
        if hc is not None and hc.key != D.DEFAULT:
            ccfg = hc.cfg
            g = _naive_guards(ccfg)
            rets = [n.id for n in ccfg.nodes if n.kind == "return"]
            ok = bool(g) and bool(rets) and ccfg.must_pass_through(rets, g)
            rep.check("Z-R2", f"{name}.convert[{nk}]:naive-refused", ok, f"a naive {nk} is accepted as a model value" if not ok else "", tloc(p, hc.fn))


def z_r3_writer_shape(p: Project, rep: Report):
    rep.rule("Z-R3", "the offset the writer emits lies inside the reader's grammar: sign (+/-) and integer hours, optional '.' + 2-digit minutes, optional ':' + name, and the reader's offset groups admit digits and both signs, a 2-digit minutes group and a ':'-introduced name")
    fd = p.get_function(TYPES, "format_datetime").node
    assigns = [s for s in own_statements(fd) if isinstance(s, (ast.Assign, ast.AugAssign))]
    tz_first = [s for s in assigns if isinstance(s, ast.Assign) and isinstance(s.targets[0], ast.Name) and s.targets[0].id == "tz"]
    ok = bool(tz_first) and isinstance(tz_first[0].value, ast.JoinedStr) and len([v for v in tz_first[0].value.values if isinstance(v, ast.FormattedValue)]) == 2
    rep.check("Z-R3", "format_datetime:offset=sign+hours", ok, "the offset does not start with a sign and the hours" if not ok else "", tloc(p, fd))
    sign = [s for s in assigns if isinstance(s, ast.Assign) and isinstance(s.targets[0], ast.Name) and s.targets[0].id == "sign"]
    ok = bool(sign) and isinstance(sign[0].value, ast.IfExp) and {text(sign[0].value.body), text(sign[0].value.orelse)} == {"'-'", "'+'"} and text(norm(sign[0].value.test)) in ("offset_mins < 0",) and text(sign[0].value.body) == "'-'"
    rep.check("Z-R3", "format_datetime:sign", ok, "the sign is not '-' exactly for negative offsets" if not ok else "", tloc(p, fd))
    mins = [s for s in assigns if isinstance(s, ast.AugAssign) and text(s.target) == "tz" and isinstance(s.value, ast.JoinedStr)]
    ok = any(any(isinstance(v, ast.FormattedValue) and v.format_spec is not None and "02d" in text(v.format_spec) for v in s.value.values) and any(isinstance(v, ast.Constant) and v.value == "." for v in s.value.values) for s in mins)
    rep.check("Z-R3", "format_datetime:minutes=.MM", ok, "minutes are not written as '.' + two digits" if not ok else "", tloc(p, fd))
    # hours/minutes from divmod(abs(offset_mins), 60)
    dm = [s for s in assigns if isinstance(s, ast.Assign) and isinstance(s.value, ast.Call) and text(s.value.func) == "divmod"]
    ok = bool(dm) and text(dm[0].value) == "divmod(abs(offset_mins), 60)" and text(dm[0].targets[0]) == "(hours, mins)"
    rep.check("Z-R3", "format_datetime:hours-mins-split", ok, f"hours/minutes are computed as {text(dm[0].value) if dm else None}" if not ok else "", tloc(p, fd))
    for clsname in ("DateTime", "Time"):
        r = rx.class_regex(p, TYPES, clsname)
        items, path = r.find_group("gmt_offset_hours")
        cs = None
        if items is not None:
            it = list(items)
            if len(it) == 1 and it[0][0] in (rx.sre_c.MAX_REPEAT, rx.sre_c.MIN_REPEAT):
                inner = list(it[0][1][2])
                if len(inner) == 1 and inner[0][0] is rx.sre_c.IN:
                    cs = rx.charset(inner[0][1])
        ok = cs is not None and set("0123456789+-") <= cs
        rep.check("Z-R3", f"{clsname}.regex:offset-hours-class", ok, f"offset hours admit {sorted(cs) if cs else None}; the writer emits digits and a sign" if not ok else "", r.where)
        lang = r.language("gmt_offset_minutes")
        ok = lang == {f"{i:02d}" for i in range(100)}
        rep.check("Z-R3", f"{clsname}.regex:offset-minutes", ok, "offset minutes are not two digits" if not ok else "", r.where)
        ok = "tz_name" in r.groups
        rep.check("Z-R3", f"{clsname}.regex:tz-name", ok, "no tz_name group" if not ok else "", r.where)


def z_r4_conversion(p: Project, rep: Report):
    rep.rule("Z-R4", "the str reader turns the matched fields into the value: milliseconds x 1000 = microseconds, absent fields count as 0, the offset is SUBTRACTED and the result labelled UTC (both DateTime and Time)")
    scal, _ = scalar_types(p)
    dt = scal["DateTime"]
    h = D.family(dt, "convert").get("str")
    fn = h.fn
    ms = [s for s in own_statements(fn) if isinstance(s, ast.Assign) and "microsecond" in text(s.targets[0])]
    ok = bool(ms) and text(norm(ms[0].value)).replace(" ", "") in ("1000*intmatches.pop('millisecond')", "intmatches.pop('millisecond')*1000", "1000*intmatches['millisecond']")
    rep.check("Z-R4", "DateTime._convert_str:ms-to-us", ok, f"microseconds computed as {text(ms[0].value) if ms else None}; expected 1000 x milliseconds" if not ok else "", tloc(p, fn))
    im = [s for s in own_statements(fn) if isinstance(s, ast.Assign) and isinstance(s.value, ast.DictComp) and "int(" in text(s.value)]
    ok = bool(im) and text(im[0].value.value) in ("int(v or 0)", "int(v) if v else 0")
    rep.check("Z-R4", "DateTime._convert_str:absent-fields-zero", ok, f"fields converted as {text(im[0].value.value) if im else None}" if not ok else "", tloc(p, fn))
    for name in ("DateTime", "Time"):
        ci = scal[name]
        c, nfn = ci.find_method("normalize_to_gmt")
        if nfn is None:
            raise AnalysisError(f"{name}.normalize_to_gmt not found")
        params = params_of(nfn)
        rets = [r for r in own_nodes(nfn) if isinstance(r, ast.Return) and r.value is not None]
        ok = bool(rets)
        for r in rets:
            t = text(r.value)
            sub = [b for b in ast.walk(r.value) if isinstance(b, ast.BinOp) and isinstance(b.op, ast.Sub) and text(b.right) == params[2]]
            add = [b for b in ast.walk(r.value) if isinstance(b, ast.BinOp) and isinstance(b.op, ast.Add) and params[2] in text(b)]
            if not sub or add or "tzinfo=utils.UTC" not in t.replace(" ", ""):
                ok = False
        rep.check("Z-R4", f"{name}.normalize_to_gmt:subtracts-offset-labels-UTC", ok, f"returns {[text(r.value) for r in rets]}; expected (value - gmt_offset) re-labelled tzinfo=UTC" if not ok else "", tloc(p, nfn))
    # the reader returns normalize_to_gmt(<type>(**fields), <parsed offset>)
    rets = [r for r in own_nodes(fn) if isinstance(r, ast.Return) and r.value is not None]
    ok = bool(rets) and all(isinstance(r.value, ast.Call) and text(r.value.func) == "self.normalize_to_gmt" and len(r.value.args) == 2 and text(r.value.args[0]).startswith("self.__type__(**") for r in rets)
    rep.check("Z-R4", "DateTime._convert_str:returns-normalized", ok, "" if ok else "the reader does not return self.normalize_to_gmt(self.__type__(**fields), offset)", tloc(p, fn))
    # parse_gmt_offset: minutes passed through, hours int()'d
    c, pfn = dt.find_method("parse_gmt_offset")
    if pfn is not None:
        rets = [r for r in own_nodes(pfn) if isinstance(r, ast.Return) and r.value is not None]
        pp = params_of(pfn)
        ok = bool(rets) and all(isinstance(r.value, ast.Call) and text(r.value.func).endswith("gmt_offset") and len(r.value.args) == 2 and text(r.value.args[1]) == f"int({pp[2]} or 0)" for r in rets)
        rep.check("Z-R4", "parse_gmt_offset:hours-minutes", ok, "" if ok else "offset minutes are not passed through as int(minutes or 0)", tloc(p, pfn))


def z_r1b_separators(p: Project, rep: Report):
    rep.rule("Z-R1b", "the separators of the optional parts are literals: a literal '.' immediately precedes the millisecond group and the offset-minutes group, a literal ':' the zone name, literal '[' and ']' enclose the offset (an unescaped '.' would accept any character there)")
    for clsname in ("DateTime", "Time"):
        r = rx.class_regex(p, TYPES, clsname)
        for g, sep in (("millisecond", "."), ("gmt_offset_minutes", "."), ("tz_name", ":"), ("gmt_offset_hours", "[")):
            prev = _preceding_item(r.tree, r.groups.get(g))
            ok = prev is not None and prev[0] is rx.sre_c.LITERAL and prev[1] == ord(sep)
            got = "nothing" if prev is None else ("any character" if prev[0] is rx.sre_c.ANY else str(prev[0]).lower())
            rep.check("Z-R1b", f"{clsname}.regex:{sep!r}-before-{g}", ok, f"group '{g}' is preceded by {got}, not by the literal {sep!r}: texts with another character in that place are accepted" if not ok else "", r.where)


def _preceding_item(sub, idx):
    """the pattern item immediately before the named group (index idx) in its own sequence"""
    if idx is None:
        return None
    items = list(sub)
    for i, (op, av) in enumerate(items):
        if op is rx.sre_c.SUBPATTERN:
            if av[0] == idx:
                return items[i - 1] if i > 0 else None
            r = _preceding_item(av[3], idx)
            if r is not None:
                return r
            if _contains_group(av[3], idx) and list(av[3]) and list(av[3])[0][0] is rx.sre_c.SUBPATTERN and list(av[3])[0][1][0] == idx:
                return items[i - 1] if i > 0 else None
        elif op in (rx.sre_c.MAX_REPEAT, rx.sre_c.MIN_REPEAT):
            r = _preceding_item(av[2], idx)
            if r is not None:
                return r
        elif op is rx.sre_c.BRANCH:
            for alt in av[1]:
                r = _preceding_item(alt, idx)
                if r is not None:
                    return r
    return None


def _contains_group(sub, idx):
    return rx._find(sub, idx, [])[0] is not None


# --------------------------------------------------------------------------
# sign analysis of utils.gmt_offset (abstract interpretation over {NEG, ZERO, POS, NONNEG, TOP})
# --------------------------------------------------------------------------
NEG, ZERO, POS, NONNEG, NONPOS, TOP = "NEG", "ZERO", "POS", "NONNEG", "NONPOS", "TOP"


def _s_add(a, b):
    if TOP in (a, b):
        return TOP
    if a == ZERO:
        return b
    if b == ZERO:
        return a
    pos, neg = {POS, NONNEG}, {NEG, NONPOS}
    if a in pos and b in pos:
        return POS if POS in (a, b) else NONNEG
    if a in neg and b in neg:
        return NEG if NEG in (a, b) else NONPOS
    return TOP  # terms of opposite sign: the magnitude is a difference, not a sum


def _s_neg(a):
    return {NEG: POS, POS: NEG, NONNEG: NONPOS, NONPOS: NONNEG}.get(a, a)


def _s_mul(a, b):
    if ZERO in (a, b):
        return ZERO
    if TOP in (a, b):
        return TOP
    sa = 1 if a in (POS, NONNEG) else -1
    sb = 1 if b in (POS, NONNEG) else -1
    strict = a in (POS, NEG) and b in (POS, NEG)
    if sa * sb > 0:
        return POS if strict else NONNEG
    return NEG if strict else NONPOS


def sign_of(e, env, fn):
    if isinstance(e, ast.Constant) and isinstance(e.value, (int, float)):
        return POS if e.value > 0 else (NEG if e.value < 0 else ZERO)
    if isinstance(e, ast.Name):
        if e.id in env:
            return env[e.id]
        from .dataflow import local_defs

        ds = local_defs(fn).get(e.id, [])
        if ds and all(d.kind == "assign" and d.stmt in fn.body for d in ds):
            # straight-line code: the last top-level assignment is the one in force at the return
            return sign_of(ds[-1].value, env, fn)
        return TOP
    if isinstance(e, ast.UnaryOp) and isinstance(e.op, ast.USub):
        return _s_neg(sign_of(e.operand, env, fn))
    if isinstance(e, ast.BinOp):
        a, b = sign_of(e.left, env, fn), sign_of(e.right, env, fn)
        if isinstance(e.op, ast.Add):
            return _s_add(a, b)
        if isinstance(e.op, ast.Sub):
            return _s_add(a, _s_neg(b))
        if isinstance(e.op, (ast.Mult, ast.Div, ast.FloorDiv)):
            return _s_mul(a, b)
        return TOP
    if isinstance(e, ast.Call):
        fname = (e.func.attr if isinstance(e.func, ast.Attribute) else getattr(e.func, "id", None))
        if fname == "abs" and e.args:
            a = sign_of(e.args[0], env, fn)
            return {NEG: POS, POS: POS, ZERO: ZERO}.get(a, NONNEG)
        if fname == "copysign" and len(e.args) == 2:
            mag, sg = sign_of(e.args[0], env, fn), sign_of(e.args[1], env, fn)
            if mag == TOP:
                # magnitude of a mixed-sign sum is still "some magnitude", but it is the wrong one: keep TOP
                return TOP
            if sg in (POS, NONNEG):
                return {ZERO: ZERO}.get(mag, POS if mag in (POS, NEG) else NONNEG)
            if sg in (NEG, NONPOS):
                return {ZERO: ZERO}.get(mag, NEG if mag in (POS, NEG) else NONPOS)
            return TOP
        if fname == "timedelta":
            total = ZERO
            names = ["days", "seconds", "microseconds", "milliseconds", "minutes", "hours", "weeks"]
            for i, a in enumerate(e.args):
                total = _s_add(total, sign_of(a, env, fn))
            for k in e.keywords:
                if k.arg in names:
                    total = _s_add(total, sign_of(k.value, env, fn))
            return total
        if fname in ("int", "float", "round") and e.args:
            return sign_of(e.args[0], env, fn)
        return TOP
    if isinstance(e, ast.IfExp):
        c = _cond(e.test, env, fn)
        if c is True:
            return sign_of(e.body, env, fn)
        if c is False:
            return sign_of(e.orelse, env, fn)
        a, b = sign_of(e.body, env, fn), sign_of(e.orelse, env, fn)
        return a if a == b else TOP
    return TOP


def _cond(t, env, fn):
    """truth of `x < 0`, `x >= 0`, ... when the sign of x decides it; None otherwise"""
    if isinstance(t, ast.Compare) and len(t.ops) == 1 and isinstance(t.comparators[0], ast.Constant) and t.comparators[0].value == 0:
        s = sign_of(t.left, env, fn)
        op = t.ops[0]
        table = {
            ast.Lt: {NEG: True, POS: False, ZERO: False, NONNEG: False}, ast.LtE: {NEG: True, POS: False, ZERO: True, NONPOS: True},
            ast.Gt: {POS: True, NEG: False, ZERO: False, NONPOS: False}, ast.GtE: {POS: True, NEG: False, ZERO: True, NONNEG: True},
        }
        return table.get(type(op), {}).get(s)
    return None


def z_r5_offset_sign(p: Project, rep: Report):
    rep.rule("Z-R5", "sign analysis of utils.gmt_offset: with negative hours and positive minutes every term of the result is negative (the .MM minutes take the sign of the hours, e.g. -3.30 = -(3h30m)); with positive hours every term is positive. A sum of opposite-sign terms (TOP in the sign domain) means minutes are added to negative hours.")
    fn = p.get_function("ofxtools.utils", "gmt_offset").node
    params = params_of(fn)
    rets = [r for r in own_nodes(fn) if isinstance(r, ast.Return) and r.value is not None]
    if not rets:
        raise AnalysisError("gmt_offset returns nothing")
    rel = p.module("ofxtools.utils").relpath
    for i, r in enumerate(rets):
        for hs, want in ((NEG, (NEG,)), (POS, (POS,))):
            got = sign_of(r.value, {params[0]: hs, params[1]: POS}, fn)
            rep.check("Z-R5", f"gmt_offset:return#{i}:hours-{hs}", got in want, f"with {hs.lower()} hours and positive minutes the offset evaluates to sign {got} (expected {want[0]}): the minutes are not given the sign of the hours, so [-3.30] is read as -2:30" if got not in want else "", f"{rel}:{r.lineno}")
