"""Date-time rules Z-R1..5 (C09): exact languages of the fixed-width groups, rejection on mismatch,
naive-value refusal (disjunctive), writer shape inside the reader's grammar."""
from __future__ import annotations

import ast
from typing import List, Optional, Set

from . import dispatch as D
from . import rx
from .cfg import CFG
from .dataflow import own_nodes, own_statements, params_of
from .match import Expander, norm, text
from .report import Report
from .rules_types import Flow, scalar_types, tloc
from .source import UNK, AnalysisError, Project, dotted

TYPES = D.TYPES


def _two(n_from, n_to):
    return {f"{i:02d}" for i in range(n_from, n_to + 1)}


EXPECTED = {
    "month": _two(1, 12), "day": _two(1, 31), "hour": _two(0, 23), "minute": _two(0, 59), "second": _two(0, 60),
    "millisecond": {f"{i:03d}" for i in range(1000)}, "year": {f"{i:04d}" for i in range(10000)},
}


def z_r1_grammar(p: Project, rep: Report):
    rep.rule("Z-R1", "the language of each fixed-width group of DT_REGEX and TIME_REGEX, enumerated exactly from the regex syntax tree, equals the OFX range (month 01-12, day 01-31, hour 00-23, minute 00-59, second 00-60, 4-digit year, 3-digit millisecond); both patterns are anchored at both ends, hour/minute/second are all-or-nothing, nothing unbounded occurs outside the [offset] bracket, and a failed match raises")
    scal, _ = scalar_types(p)
    for clsname, groups in (("DateTime", ["year", "month", "day", "hour", "minute", "second", "millisecond"]), ("Time", ["hour", "minute", "second", "millisecond"])):
        r = rx.class_regex(p, TYPES, clsname)
        for g in groups:
            lang = r.language(g)
            want = EXPECTED[g]
            if lang is None:
                rep.check("Z-R1", f"{clsname}.regex:{g}", False, f"group '{g}' is missing or its language is unbounded", r.where)
                continue
            extra, missing = sorted(lang - want), sorted(want - lang)
            rep.check("Z-R1", f"{clsname}.regex:{g}", not extra and not missing,
                      f"group '{g}' accepts {extra[:6]}{'...' if len(extra) > 6 else ''} outside the OFX range and rejects {missing[:6]} inside it" if (extra or missing) else f"{len(lang)} strings", r.where)
        # anchors
        items = list(r.tree)
        first, last = items[0], items[-1]
        ok = first[0] is rx.sre_c.AT and first[1] in (rx.sre_c.AT_BEGINNING, rx.sre_c.AT_BEGINNING_STRING) and last[0] is rx.sre_c.AT and last[1] in (rx.sre_c.AT_END, rx.sre_c.AT_END_STRING)
        rep.check("Z-R1", f"{clsname}.regex:anchored", ok, "the pattern is not anchored at both ends: trailing or leading garbage is accepted" if not ok else "", r.where)
        ok = not (r.flags & (rx.re.MULTILINE | rx.re.IGNORECASE))
        rep.check("Z-R1", f"{clsname}.regex:flags", ok, "MULTILINE/IGNORECASE change what the anchors and classes accept" if not ok else "", r.where)
        # group order
        order = [g for g in r.group_order() if g in groups]
        rep.check("Z-R1", f"{clsname}.regex:field-order", order == groups, f"fields occur as {order}, expected {groups}" if order != groups else "", r.where)
        # hour/minute/second share one optional group (all or nothing)
        paths = [r.find_group(g)[1] for g in ("hour", "minute", "second")]
        ok = all(pp is not None for pp in paths) and paths[0] == paths[1] == paths[2]
        rep.check("Z-R1", f"{clsname}.regex:time-all-or-nothing", ok, "hour, minute and second are not in one common (optional) group: partial times are accepted" if not ok else "", r.where)
        # mandatory parts: date fields (DateTime) / time fields (Time) are not inside an optional repeat
        mand = ["year", "month", "day"] if clsname == "DateTime" else ["hour", "minute", "second"]
        for g in mand:
            _, path = r.find_group(g)
            opt = path is not None and any(x[0] == "repeat" and x[1] == 0 for x in path)
            rep.check("Z-R1", f"{clsname}.regex:{g}-mandatory", path is not None and not opt, f"'{g}' is optional" if (path is None or opt) else "", r.where)
        # unbounded items only inside the bracket
        for op, inner, path, seq in rx.unbounded_items(r.tree):
            # find the enclosing sequence containing a literal '['
            inside = _inside_bracket(r.tree, path)
            rep.check("Z-R1", f"{clsname}.regex:unbounded@{'.'.join(map(str, path))}", inside, "an unbounded repeat outside the [offset:name] bracket accepts texts of any length" if not inside else "", r.where)
    # failed match raises
    dt = scal["DateTime"]
    h = D.family(dt, "convert").get("str")
    if h is None:
        raise AnalysisError("DateTime str reader not found")
    from . import paths as _PT

    _rps, pl = h.return_paths()
    cfg = pl.cfg
    vp_ = h.value_param()
    uses = [n for n in cfg.nodes if n.stmt is not None and n.kind not in ("join", "handlers") and any(isinstance(x, ast.Attribute) and x.attr in ("groupdict", "group", "groups") for e in n.exprs() for x in ast.walk(e))]
    ok = bool(uses)
    undecided = False
    for u in uses:
        for q in pl:
            cb = q.conds_before(u.id)
            if cb is None:
                continue
            goal = []
            for c_, _w in cb:
                for a in c_.atoms():
                    if a.endswith(f"match({vp_}) is None"):
                        goal.append(_PT.atom(a, False))
                    elif a.startswith("bool(") and a.endswith(f"match({vp_}))"):
                        goal.append(_PT.atom(a, True))
            if not goal:
                ok = False
                continue
            r_ = _PT.implies(cb, _PT.any_of(*goal))
            if r_ is False:
                ok = False
            elif r_ is None:
                undecided = True
    if undecided and ok:
        rep.note("Z-R1 undecided: too many conditions before the match fields are used")
    else:
        rep.check("Z-R1", "DateTime._convert_str:no-match-raises", ok, "a text that does not match the grammar is not rejected before its fields are used" if not ok else "", tloc(p, h.fn))
    ex = Expander(h.ffn)
    m = [s for s in own_statements(h.ffn) if isinstance(s, ast.Assign) and isinstance(s.value, ast.Call) and isinstance(s.value.func, ast.Attribute) and s.value.func.attr in ("match", "fullmatch", "search")]
    ok = bool(m) and all(text(s.value.func.value) == "self.regex" and s.value.func.attr in ("match", "fullmatch") for s in m)
    rep.check("Z-R1", "DateTime._convert_str:matches-self.regex", ok, "the text is not matched (anchored) against self.regex" if not ok else "", tloc(p, h.fn))
    # Time uses the same reader with its own regex
    t = scal["Time"]
    v = t.attrs.get("regex")
    rep.check("Z-R1", "Time.regex:is-TIME_REGEX", v is not None and text(v[1]) == "TIME_REGEX", "Time does not use TIME_REGEX" if not (v is not None and text(v[1]) == "TIME_REGEX") else "", tloc(p, t.node))


def _inside_bracket(tree, path) -> bool:
    """is the item at `path` preceded, in one of its enclosing sequences, by a literal '['"""
    seq = tree
    for depth, idx in enumerate(path):
        items = list(seq)
        if any(op is rx.sre_c.LITERAL and av == ord("[") for op, av in items[:idx]):
            return True
        op, av = items[idx]
        if op is rx.sre_c.SUBPATTERN:
            seq = av[3]
        elif op in (rx.sre_c.MAX_REPEAT, rx.sre_c.MIN_REPEAT):
            seq = av[2]
        elif op is rx.sre_c.BRANCH:
            # path continues inside one alternative; search all
            return any(_inside_bracket(alt, path[depth + 1:]) for alt in av[1])
        else:
            return False
    return False


def _refuses_naive(fn, vp, lookup=None) -> Optional[bool]:
    """do the conditions of every returning path imply `<vp>.utcoffset() is not None`?  None = the function never mentions utcoffset"""
    from . import paths as PT
    from .paths import return_paths

    rps, pths = return_paths(fn, lookup, Expander(fn))
    atoms = set(PT.atoms_of(pths))
    # a value is aware iff its utcoffset() is not None; `tzinfo is None` alone does not decide it (a time carrying a
    # date-dependent tzinfo has a tzinfo and still no offset)
    mine = [a for a in atoms if a == f"{vp}.utcoffset() is None"]
    if not mine:
        return None
    goal = PT.Cond("and", [PT.atom(a, False) for a in mine[:1]])
    if not rps:
        return True
    return all(PT.implies(pth.conds, goal) is not False for pth, _r, _s in rps)


def z_r2_naive(p: Project, rep: Report):
    rep.rule("Z-R2", "naive values are refused: the conditions of every returning path of a DateTime/Time write handler imply `value.utcoffset() is not None` - established in the handler or, when the handler returns format_datetime(...), in format_datetime (either suffices); the native-type readers refuse naive values too")
    from .flat import flat

    scal, _ = scalar_types(p)
    fd0 = p.get_function(TYPES, "format_datetime").node
    fd = flat(p, TYPES, fd0)
    fd_ok = _refuses_naive(fd, params_of(fd0)[-1])
    for name in ("DateTime", "Time"):
        ci = scal[name]
        nk = D.native_key(ci)
        h = D.family(ci, "unconvert").handler_for_native(nk)
        if h is None:
            continue
        own_ok = _refuses_naive(h.ffn, h.value_param(), h._lookup)
        rps, _ = h.return_paths()
        vp_ = h.value_param()
        # format_datetime's own refusal only counts when it is given the value itself (not a datetime built around it)
        via_fd = bool(rps) and all(rtxt.startswith("format_datetime(") and rtxt.endswith(f", {vp_})") for _p, rtxt, _s in rps)
        ok = (own_ok is True) or (via_fd and fd_ok is True)
        if not ok and own_ok is None and not via_fd and fd_ok is None:
            rep.note(f"Z-R2 undecided for {name} writer")
            continue
        rep.check("Z-R2", f"{name}.unconvert[{nk}]:naive-refused", ok, f"a naive {nk} can be written: neither {h.qualname} nor format_datetime refuses utcoffset() is None on every returning path" if not ok else ("in handler" if own_ok else "in format_datetime"), tloc(p, h.fn))
        hc = D.family(ci, "convert").handler_for_native(nk)
        if hc is not None and hc.key != D.DEFAULT:
            r = _refuses_naive(hc.ffn, hc.value_param(), hc._lookup)
            rep.check("Z-R2", f"{name}.convert[{nk}]:naive-refused", r is True, f"a naive {nk} is accepted as a model value" if r is not True else "", tloc(p, hc.fn))


def _sign_assigned(stmts):
    """'-' / '+' when the block (top level) assigns exactly that constant to a name, else None"""
    vals = [st.value.value for st in stmts if isinstance(st, ast.Assign) and len(st.targets) == 1 and isinstance(st.targets[0], ast.Name) and isinstance(st.value, ast.Constant) and st.value.value in ("-", "+")]
    return vals[0] if len(vals) == 1 else None


def z_r3_writer_shape(p: Project, rep: Report):
    rep.rule("Z-R3", "the offset the writer emits lies inside the reader's grammar: '-' exactly for negative offsets, hours and minutes split from the ABSOLUTE offset, minutes as '.' + 2 digits; the reader's offset groups admit digits and both signs, a 2-digit minutes group and a ':'-introduced name.  (Writer clauses are decided on the flattened function; a spelling that is neither the known-good nor a known-bad form leaves the clause undecided.)")
    from . import canon
    from .flat import flat
    from .paths import canon_atom

    fd0 = p.get_function(TYPES, "format_datetime").node
    fd = canon.formats_to_fstrings(flat(p, TYPES, fd0))
    ex = Expander(fd)
    # --- sign
    decided = False
    for n in ast.walk(fd):
        test = pos = neg = None
        if isinstance(n, ast.IfExp) and isinstance(n.body, ast.Constant) and isinstance(n.orelse, ast.Constant) and {n.body.value, n.orelse.value} == {"-", "+"}:
            test, minus_on_true = n.test, n.body.value == "-"
        elif isinstance(n, ast.If) and n.orelse and _sign_assigned(n.body) and _sign_assigned(n.orelse) and {_sign_assigned(n.body), _sign_assigned(n.orelse)} == {"-", "+"}:
            test, minus_on_true = n.test, _sign_assigned(n.body) == "-"
        else:
            continue
        a, pol = canon_atom(ex.x(test))
        decided = True
        if a.endswith(" < 0"):
            ok = (pol == minus_on_true)
        elif a.startswith("0 < "):
            # '-' chosen when NOT (0 < x): that is x <= 0, wrong for zero only cosmetically (+0/-0) but flags the boundary
            ok = False
        else:
            rep.note(f"Z-R3 undecided: sign chosen on `{a}`")
            continue
        rep.check("Z-R3", "format_datetime:sign", ok, f"'-' is chosen when `{'' if (pol == minus_on_true) else 'not '}{a}`: the sign must be '-' exactly for negative offsets" if not ok else "", tloc(p, fd0))
    if not decided:
        # the sign printed by a numeric format of the HOURS part ('+d'): zero has no sign, so every offset whose hours
        # part is 0 comes out as +0 (UTC-00:30 is written [+0.30])
        hours_names = set()
        for st_ in ast.walk(fd):
            if isinstance(st_, ast.Assign) and len(st_.targets) == 1 and isinstance(st_.targets[0], (ast.Tuple, ast.List)) and isinstance(st_.value, ast.Call) and text(st_.value.func) == "divmod" and st_.targets[0].elts and isinstance(st_.targets[0].elts[0], ast.Name):
                hours_names.add(st_.targets[0].elts[0].id)
        signed_fmt = None
        for x_ in ast.walk(fd):
            if isinstance(x_, ast.FormattedValue) and x_.format_spec is not None and "+" in text(x_.format_spec) and any(isinstance(y_, ast.Name) and y_.id in hours_names for y_ in ast.walk(x_.value)):
                signed_fmt = x_
            elif isinstance(x_, ast.Call) and text(x_.func) == "format" and len(x_.args) == 2 and isinstance(x_.args[1], ast.Constant) and "+" in str(x_.args[1].value) and any(isinstance(y_, ast.Name) and y_.id in hours_names for y_ in ast.walk(x_.args[0])):
                signed_fmt = x_
        if signed_fmt is not None:
            rep.check("Z-R3", "format_datetime:sign", False, f"the sign is printed by formatting the hours part ({text(signed_fmt)[:40]}): zero has no sign, so an offset between -0:59 and -0:01 is written [+0.MM] and read back an hour or so off", tloc(p, fd0))
        else:
            rep.note("Z-R3 undecided: sign selection not recognised")
    # --- hours / minutes split
    from . import paths as _PT

    try:
        fpl = _PT.enumerate_paths(fd, None, Expander(fd))
    except AnalysisError as e:
        fpl = None
        rep.note(f"Z-R3 undecided: {e}")
    n_split = 0
    if fpl is not None:
        fcfg = fpl.cfg
        verdict, seen_any, why_ = True, False, ""
        for n_ in fcfg.nodes:
            if n_.stmt is None or n_.kind in ("join", "handlers"):
                continue
            for c in n_.calls():
                if not (isinstance(c.func, ast.Name) and c.func.id == "divmod" and len(c.args) == 2 and text(c.args[1]) == "60"):
                    continue
                n_split += 1
                for q in fpl:
                    i = q.index_of(n_.id)
                    if i is None:
                        continue
                    seen_any = True
                    v = _PT.value_on_path(q, fcfg, c.args[0], upto=i)
                    facts = _PT.simple_conds(q.conds_before(n_.id) or [])
                    tv = text(v)
                    if isinstance(v, ast.Call) and text(v.func) == "abs":
                        continue
                    inner = v.operand if isinstance(v, ast.UnaryOp) and isinstance(v.op, ast.USub) else None
                    if inner is not None and facts.get(f"{text(inner)} < 0") is True:
                        continue
                    if inner is None and facts.get(f"{tv} < 0") is False:
                        continue
                    if any(tv in a or (inner is not None and text(inner) in a) for a in facts):
                        rep.note(f"Z-R3 undecided: sign of {tv[:50]} at the split not decided by {sorted(facts)[:3]}")
                        verdict = None if verdict is True else verdict
                        continue
                    verdict, why_ = False, tv
        if seen_any and verdict is not None:
            rep.check("Z-R3", "format_datetime:hours-mins-split", verdict, f"hours/minutes are computed as divmod({why_[:60]}, 60) on a path where the offset may be negative: floor division then gives the wrong hours/minutes (the absolute value must be split)" if not verdict else "", tloc(p, fd0))
    if not n_split:
        rep.note("Z-R3 undecided: no divmod() split of the offset")
    # --- minutes format: the variable holding the minutes is the remainder of the split by 60
    minvars = set()
    for st in ast.walk(fd):
        if isinstance(st, ast.Assign) and len(st.targets) == 1:
            t, v = st.targets[0], st.value
            if isinstance(t, ast.Tuple) and len(t.elts) == 2 and isinstance(v, ast.Call) and isinstance(v.func, ast.Name) and v.func.id == "divmod" and len(v.args) == 2 and text(v.args[1]) == "60" and isinstance(t.elts[1], ast.Name):
                minvars.add(t.elts[1].id)
            if isinstance(t, ast.Name) and isinstance(v, ast.BinOp) and isinstance(v.op, ast.Mod) and text(v.right) == "60":
                minvars.add(t.id)
    uses = []
    for j in ast.walk(fd):
        if isinstance(j, ast.JoinedStr):
            for v in j.values:
                if isinstance(v, ast.FormattedValue):
                    inner = v.value
                    while isinstance(inner, ast.Call) and isinstance(inner.func, ast.Name) and inner.func.id in ("int", "abs") and len(inner.args) == 1:
                        inner = inner.args[0]
                    if isinstance(inner, ast.Name) and inner.id in minvars:
                        uses.append(text(v.format_spec) if v.format_spec is not None else "")
    zfilled = any(isinstance(c, ast.Call) and isinstance(c.func, ast.Attribute) and c.func.attr == "zfill" and text(c.args[0]) == "2" and any(isinstance(x, ast.Name) and x.id in minvars for x in ast.walk(c.func.value)) for c in ast.walk(fd) if isinstance(c, ast.Call) and c.args)
    if uses:
        good = {"'02d'", "'02'", "'0>2'", "'0>2d'", "02d", "02", "0>2", "0>2d"}
        ok = all(u.strip("f") in good or u in good for u in uses)
        rep.check("Z-R3", "format_datetime:minutes=.MM", ok, f"offset minutes are formatted with {[u or '<no format spec>' for u in uses]}: the reader requires exactly two digits ([+5.5] is not [+5.05])" if not ok else "", tloc(p, fd0))
    elif zfilled:
        rep.check("Z-R3", "format_datetime:minutes=.MM", True, "", tloc(p, fd0))
    else:
        # the offset re-punctuated from strftime("%z") (+HHMM, or +HHMMSS[.ffffff] when the offset has seconds): every
        # piece must be cut with BOTH bounds - an open-ended slice carries the seconds into the minutes field
        zs = set()
        for st in ast.walk(fd):
            if isinstance(st, ast.Assign) and isinstance(st.value, ast.Call) and isinstance(st.value.func, ast.Attribute) and st.value.func.attr == "strftime" and st.value.args and isinstance(st.value.args[0], ast.Constant) and st.value.args[0].value == "%z":
                zs |= {t.id for t in st.targets if isinstance(t, ast.Name)}
        open_ended = [x for x in ast.walk(fd) if isinstance(x, ast.Subscript) and isinstance(x.slice, ast.Slice) and x.slice.upper is None and x.slice.lower is not None and ((isinstance(x.value, ast.Name) and x.value.id in zs) or (isinstance(x.value, ast.Call) and isinstance(x.value.func, ast.Attribute) and x.value.func.attr == "strftime" and x.value.args and isinstance(x.value.args[0], ast.Constant) and x.value.args[0].value == "%z"))]
        if zs or open_ended:
            rep.check("Z-R3", "format_datetime:minutes=.MM", not open_ended, f"the minutes are taken as {text(open_ended[0])} of strftime('%z'): for an offset with a seconds part (+HHMMSS, e.g. local mean time zones) that is four or more digits, which is not OFX and which the reader's own two-digit group rejects" if open_ended else "", tloc(p, fd0))
        else:
            rep.note("Z-R3 undecided: minutes format not recognised")
    for clsname in ("DateTime", "Time"):
        r = rx.class_regex(p, TYPES, clsname)
        items, path = r.find_group("gmt_offset_hours")
        cs = None
        if items is not None:
            it = list(items)
            if len(it) == 1 and it[0][0] in (rx.sre_c.MAX_REPEAT, rx.sre_c.MIN_REPEAT):
                inner = list(it[0][1][2])
                if len(inner) == 1 and inner[0][0] is rx.sre_c.IN:
                    cs = rx.charset(inner[0][1])
        if cs is not None:
            mn_, mx_ = it[0][1][0], it[0][1][1]
            # the writer emits a sign and one or two digits ('+5', '-12', '+14'): up to three characters
            okl = mn_ <= 2 and (mx_ == rx.sre_c.MAXREPEAT or mx_ >= 3)
            rep.check("Z-R3", f"{clsname}.regex:offset-hours-length", okl, f"the offset-hours group admits {mn_}..{mx_} characters of [digits, sign]: the writer emits the sign and up to two digits ('+10' .. '+14', '-10' .. '-12' are three characters), so its own output for zones ten or more hours from UTC is refused" if not okl else "", r.where)
        ok = cs is not None and set("0123456789+-") <= cs
        rep.check("Z-R3", f"{clsname}.regex:offset-hours-class", ok, f"offset hours admit {sorted(cs) if cs else None}; the writer emits digits and a sign" if not ok else "", r.where)
        lang = r.language("gmt_offset_minutes")
        ok = lang == {f"{i:02d}" for i in range(100)}
        rep.check("Z-R3", f"{clsname}.regex:offset-minutes", ok, "offset minutes are not two digits" if not ok else "", r.where)
        ok = "tz_name" in r.groups
        rep.check("Z-R3", f"{clsname}.regex:tz-name", ok, "no tz_name group" if not ok else "", r.where)
        if ok:
            # the writer emits value.tzname() verbatim: letters, digits and - for unnamed fixed offsets - 'UTC-05:00'
            titems, _tp = r.find_group("tz_name")
            tl = list(titems)
            admits = None
            if len(tl) == 1 and tl[0][0] in (rx.sre_c.MAX_REPEAT, rx.sre_c.MIN_REPEAT):
                tin = list(tl[0][1][2])
                if len(tin) == 1 and tin[0][0] is rx.sre_c.ANY:
                    admits = True
                elif len(tin) == 1 and tin[0][0] is rx.sre_c.IN:
                    cs_ = rx.charset(tin[0][1])
                    need_ = set("ABCDEFGHIJKLMNOPQRSTUVWXYZabcdefghijklmnopqrstuvwxyz0123456789+-:/_ ")
                    admits = cs_ is not None and need_ <= cs_
                    missing_ = sorted(need_ - cs_) if cs_ is not None else []
            if admits is None:
                rep.note(f"Z-R3 undecided: {clsname} tz_name pattern not recognised")
            else:
                rep.check("Z-R3", f"{clsname}.regex:tz-name-admits-written-names", admits, f"the zone-name group does not admit {missing_[:6]}: names the writer emits (tzname() of an unnamed fixed offset is 'UTC-05:00') cannot be read back" if not admits else "", r.where)


def z_r4_conversion(p: Project, rep: Report, utc_label=False):
    # utc_label: also require that the value carries the UTC label (C03/C09 state it; the round-trip properties only need the instant)
    rep.rule("Z-R4", "the str reader turns the matched fields into the value: milliseconds x 1000 = microseconds, absent fields count as 0, the offset is SUBTRACTED and the result labelled UTC (both DateTime and Time), offset minutes are int(minutes or 0).  Known-good spellings hold, known-bad ones (another factor, '+', another default) are violations, anything else is left undecided.")
    from .flat import flat
    from .paths import return_paths

    scal, _ = scalar_types(p)
    dt = scal["DateTime"]
    h = D.family(dt, "convert").get("str")
    fn = h.ffn
    ex = Expander(fn)
    # --- ms -> us
    mults = [b for b in ast.walk(fn) if isinstance(b, ast.BinOp) and isinstance(b.op, ast.Mult) and any(isinstance(x, ast.Constant) and isinstance(x.value, int) and x.value >= 10 for x in (b.left, b.right)) and "milli" in ex.t(b).lower()]
    if mults:
        for b in mults:
            k = b.left.value if isinstance(b.left, ast.Constant) else b.right.value
            rep.check("Z-R4", "DateTime._convert_str:ms-to-us", k == 1000, f"microseconds are computed as {text(b)}: milliseconds must be multiplied by 1000" if k != 1000 else "", tloc(p, h.fn))
    else:
        rep.note("Z-R4 undecided: millisecond -> microsecond conversion not recognised")
    # --- absent fields
    ints = [c for c in ast.walk(fn) if isinstance(c, ast.Call) and isinstance(c.func, ast.Name) and c.func.id == "int" and c.args and isinstance(c.args[0], ast.BoolOp) and isinstance(c.args[0].op, ast.Or) and isinstance(c.args[0].values[-1], ast.Constant)]
    ints = [c for c in ints if "hours" not in text(c) and "minutes" not in text(c)]
    if ints:
        for c in ints:
            d = c.args[0].values[-1].value
            rep.check("Z-R4", "DateTime._convert_str:absent-fields-zero", d == 0, f"absent fields default to {d!r} ({text(c)})" if d != 0 else "", tloc(p, h.fn))
    else:
        rep.note("Z-R4 undecided: defaulting of absent fields not recognised")
    # --- normalize_to_gmt
    for name in ("DateTime", "Time"):
        ci = scal[name]
        c, nfn0 = ci.find_method("normalize_to_gmt")
        if nfn0 is None:
            rep.note(f"Z-R4 undecided: {name}.normalize_to_gmt not found")
            continue
        nfn = flat(p, TYPES, nfn0, ci)
        params = params_of(nfn0)
        off = params[2]
        rps, _ = return_paths(nfn, expander=Expander(nfn))
        for i, (pth, rtxt, sc) in enumerate(rps):
            if f"{off} //" in rtxt or "// 3600" in rtxt or ".seconds //" in rtxt:
                rep.check("Z-R4", f"{name}.normalize_to_gmt:subtracts-offset-labels-UTC", False, f"returns {rtxt[:90]}: only the WHOLE HOURS of the offset are applied (floor division), the .MM minutes of offsets such as +5.30 are dropped", tloc(p, nfn0))
            elif f"+ {off}" in rtxt or f"{off} +" in rtxt:
                rep.check("Z-R4", f"{name}.normalize_to_gmt:subtracts-offset-labels-UTC", False, f"returns {rtxt[:80]}: the offset is ADDED; local time minus its UTC offset is UTC", tloc(p, nfn0))
            elif f"- {off}" in rtxt and "tzinfo=utils.UTC" in rtxt.replace(" ", "").replace("tzinfo=UTC", "tzinfo=utils.UTC"):
                rep.check("Z-R4", f"{name}.normalize_to_gmt:subtracts-offset-labels-UTC", True, "", tloc(p, nfn0))
            elif f"- {off}" in rtxt:
                rep.check("Z-R4", f"{name}.normalize_to_gmt:subtracts-offset-labels-UTC", False, f"returns {rtxt[:80]}: the shifted value is not labelled UTC", tloc(p, nfn0))
            elif f"{off} //" in rtxt or "// 3600" in rtxt or ".seconds //" in rtxt:
                rep.check("Z-R4", f"{name}.normalize_to_gmt:subtracts-offset-labels-UTC", False, f"returns {rtxt[:90]}: only the WHOLE HOURS of the offset are applied (floor division), the .MM minutes of offsets such as +5.30 are dropped", tloc(p, nfn0))
            elif utc_label and "tzinfo=" in rtxt and "astimezone(" not in rtxt and not any(u in rtxt.replace(" ", "") for u in ("tzinfo=utils.UTC", "tzinfo=UTC", "tzinfo=datetime.timezone.utc", "tzinfo=timezone.utc")):
                rep.check("Z-R4", f"{name}.normalize_to_gmt:subtracts-offset-labels-UTC", False, f"returns {rtxt[:90]}: the value is labelled with the document's own zone and never shifted to UTC - models hold values in whatever zone the bank wrote (hour, date and tzinfo differ from the UTC value the data type assigns)", tloc(p, nfn0))
            else:
                rep.note(f"Z-R4 undecided: {name}.normalize_to_gmt returns {rtxt[:60]}")
    # --- the reader returns the normalised value
    rps, _ = h.return_paths()
    for pth, rtxt, sc in rps:
        ok = "normalize_to_gmt(" in rtxt
        if not ok and "tzinfo=" in rtxt and " - " in rtxt:
            ok = True
        rep.check("Z-R4", "DateTime._convert_str:returns-normalized", ok, f"the reader returns {rtxt[:70]}, which is not normalised to UTC" if not ok else "", tloc(p, h.fn))
    # --- parse_gmt_offset
    c, pfn0 = dt.find_method("parse_gmt_offset")
    if pfn0 is not None:
        pfn = flat(p, TYPES, pfn0, dt)
        pp = params_of(pfn0)
        # the zone-name table is a fallback for hours that could not be parsed - never for a parsed offset (0 included)
        from . import paths as _PT4

        try:
            ppl = _PT4.enumerate_paths(pfn, None, Expander(pfn), resolve=False)
        except AnalysisError as e:
            ppl = None
            rep.note(f"Z-R4 undecided: {e}")
        if ppl is not None:
            pcfg_ = ppl.cfg
            lookups = [n_ for n_ in pcfg_.nodes if n_.stmt is not None and n_.kind not in ("join", "handlers") and any(isinstance(x, ast.Subscript) and isinstance(x.ctx, ast.Load) and text(x.value).endswith("TZS") for e_ in n_.exprs() for x in ast.walk(e_))]
            bad_ = None
            bad_range = None
            other_raiser = None
            # it must be int() that failed: a try whose handler consults the zone table must not guard another call that
            # raises ValueError itself (a range check would send a PARSED, out-of-range offset to the zone table)
            for tr_ in [x for x in ast.walk(pfn) if isinstance(x, ast.Try)]:
                if not any(isinstance(x, ast.Subscript) and isinstance(x.ctx, ast.Load) and text(x.value).endswith("TZS") for h_ in tr_.handlers for x in ast.walk(h_)):
                    continue
                for call_ in [x for st_ in tr_.body for x in ast.walk(st_) if isinstance(x, ast.Call)]:
                    d_ = dotted(call_.func) or ""
                    if d_ == "int":
                        continue
                    tgt_ = None
                    if d_.startswith("utils.") and p.has_binding("ofxtools.utils", d_.split(".", 1)[1]):
                        tgt_ = p.resolve("ofxtools.utils", d_.split(".", 1)[1])
                    elif d_.startswith("self."):
                        _c, tgt_ = dt.find_method(d_.split(".", 1)[1])
                    node_ = getattr(tgt_, "node", tgt_)
                    if isinstance(node_, ast.FunctionDef) and any(isinstance(r_, ast.Raise) and r_.exc is not None and "ValueError" in text(r_.exc) for r_ in ast.walk(node_)):
                        other_raiser = d_
            seen_ = 0
            for ln in lookups:
                for q in ppl:
                    cb = q.conds_before(ln.id)
                    if cb is None:
                        continue
                    seen_ += 1
                    failed = any(w is True and any(a.startswith("raises(") and "int(" in a for a in c_.atoms()) for c_, w in cb)
                    is_none = any(_PT4.simple_conds(cb).get(a) is True for a in _PT4.simple_conds(cb) if a.endswith(" is None") and "hour" in a)
                    if not failed and not is_none:
                        bad_ = _PT4.simple_conds(cb)
                    elif failed and other_raiser is not None and not is_none:
                        bad_range = other_raiser
            if seen_ and bad_ is None and bad_range is not None:
                rep.check("Z-R4", "parse_gmt_offset:zone-table-only-when-hours-unparsable", False, f"the statement whose ValueError sends the reader to the zone-name table also calls {bad_range}(), which raises ValueError itself (range check): an offset that WAS parsed but is out of range ([+15:EST]) is silently replaced by the zone table's value instead of being rejected", tloc(p, pfn0))
            elif seen_:
                rep.check("Z-R4", "parse_gmt_offset:zone-table-only-when-hours-unparsable", bad_ is None, f"the zone-name table is consulted on a path where the offset hours were parsed (taken when {bad_}): a text such as [0:EST] is read with EST's offset instead of 0 - the name is only a label" if bad_ is not None else "", tloc(p, pfn0))
        rps, _ = return_paths(pfn, expander=Expander(pfn))
        for pth, rtxt, sc in rps:
            import re as _re

            m = _re.search(r"gmt_offset\((.*), (int\(.*\))\)$", rtxt)
            if not m:
                rep.note(f"Z-R4 undecided: parse_gmt_offset returns {rtxt[:60]}")
                continue
            ok = m.group(2) == f"int({pp[2]} or 0)"
            if not ok and pp[2] in m.group(2):
                rep.note(f"Z-R4 undecided: minutes passed as {m.group(2)}")
                continue
            rep.check("Z-R4", "parse_gmt_offset:hours-minutes", ok, f"offset minutes are passed as {m.group(2)}" if not ok else "", tloc(p, pfn0))


def z_r1b_separators(p: Project, rep: Report):
    rep.rule("Z-R1b", "the separators of the optional parts are literals: a literal '.' immediately precedes the millisecond group and the offset-minutes group, a literal ':' the zone name, literal '[' and ']' enclose the offset (an unescaped '.' would accept any character there)")
    for clsname in ("DateTime", "Time"):
        r = rx.class_regex(p, TYPES, clsname)
        for g, sep in (("millisecond", "."), ("gmt_offset_minutes", "."), ("tz_name", ":"), ("gmt_offset_hours", "[")):
            prev = _preceding_item(r.tree, r.groups.get(g))
            ok = prev is not None and prev[0] is rx.sre_c.LITERAL and prev[1] == ord(sep)
            got = "nothing" if prev is None else ("any character" if prev[0] is rx.sre_c.ANY else str(prev[0]).lower())
            rep.check("Z-R1b", f"{clsname}.regex:{sep!r}-before-{g}", ok, f"group '{g}' is preceded by {got}, not by the literal {sep!r}: texts with another character in that place are accepted" if not ok else "", r.where)


def _preceding_item(sub, idx):
    """the pattern item immediately before the named group (index idx) in its own sequence"""
    if idx is None:
        return None
    items = list(sub)
    for i, (op, av) in enumerate(items):
        if op is rx.sre_c.SUBPATTERN:
            if av[0] == idx:
                return items[i - 1] if i > 0 else None
            r = _preceding_item(av[3], idx)
            if r is not None:
                return r
            if _contains_group(av[3], idx) and list(av[3]) and list(av[3])[0][0] is rx.sre_c.SUBPATTERN and list(av[3])[0][1][0] == idx:
                return items[i - 1] if i > 0 else None
        elif op in (rx.sre_c.MAX_REPEAT, rx.sre_c.MIN_REPEAT):
            r = _preceding_item(av[2], idx)
            if r is not None:
                return r
        elif op is rx.sre_c.BRANCH:
            for alt in av[1]:
                r = _preceding_item(alt, idx)
                if r is not None:
                    return r
    return None


def _contains_group(sub, idx):
    return rx._find(sub, idx, [])[0] is not None


# --------------------------------------------------------------------------
# sign analysis of utils.gmt_offset (abstract interpretation over {NEG, ZERO, POS, NONNEG, TOP})
# --------------------------------------------------------------------------
NEG, ZERO, POS, NONNEG, NONPOS, TOP = "NEG", "ZERO", "POS", "NONNEG", "NONPOS", "TOP"


def _s_add(a, b):
    if TOP in (a, b):
        return TOP
    if a == ZERO:
        return b
    if b == ZERO:
        return a
    pos, neg = {POS, NONNEG}, {NEG, NONPOS}
    if a in pos and b in pos:
        return POS if POS in (a, b) else NONNEG
    if a in neg and b in neg:
        return NEG if NEG in (a, b) else NONPOS
    return TOP  # terms of opposite sign: the magnitude is a difference, not a sum


def _s_neg(a):
    return {NEG: POS, POS: NEG, NONNEG: NONPOS, NONPOS: NONNEG}.get(a, a)


def _s_mul(a, b):
    if ZERO in (a, b):
        return ZERO
    if TOP in (a, b):
        return TOP
    sa = 1 if a in (POS, NONNEG) else -1
    sb = 1 if b in (POS, NONNEG) else -1
    strict = a in (POS, NEG) and b in (POS, NEG)
    if sa * sb > 0:
        return POS if strict else NONNEG
    return NEG if strict else NONPOS


def sign_of(e, env, fn):
    if isinstance(e, ast.Constant) and isinstance(e.value, (int, float)):
        return POS if e.value > 0 else (NEG if e.value < 0 else ZERO)
    if isinstance(e, ast.Name):
        if e.id in env:
            return env[e.id]
        from .dataflow import local_defs

        ds = local_defs(fn).get(e.id, [])
        if ds and all(d.kind == "assign" and d.stmt in fn.body for d in ds):
            # straight-line code: the last top-level assignment is the one in force at the return
            return sign_of(ds[-1].value, env, fn)
        return TOP
    if isinstance(e, ast.UnaryOp) and isinstance(e.op, ast.USub):
        return _s_neg(sign_of(e.operand, env, fn))
    if isinstance(e, ast.BinOp):
        a, b = sign_of(e.left, env, fn), sign_of(e.right, env, fn)
        if isinstance(e.op, ast.Add):
            return _s_add(a, b)
        if isinstance(e.op, ast.Sub):
            return _s_add(a, _s_neg(b))
        if isinstance(e.op, (ast.Mult, ast.Div, ast.FloorDiv)):
            return _s_mul(a, b)
        return TOP
    if isinstance(e, ast.Call):
        fname = (e.func.attr if isinstance(e.func, ast.Attribute) else getattr(e.func, "id", None))
        if fname in ("abs", "fabs") and e.args:
            a = sign_of(e.args[0], env, fn)
            return {NEG: POS, POS: POS, ZERO: ZERO}.get(a, NONNEG)
        if fname == "copysign" and len(e.args) == 2:
            mag, sg = sign_of(e.args[0], env, fn), sign_of(e.args[1], env, fn)
            if mag == TOP:
                # magnitude of a mixed-sign sum is still "some magnitude", but it is the wrong one: keep TOP
                return TOP
            if sg in (POS, NONNEG):
                return {ZERO: ZERO}.get(mag, POS if mag in (POS, NEG) else NONNEG)
            if sg in (NEG, NONPOS):
                return {ZERO: ZERO}.get(mag, NEG if mag in (POS, NEG) else NONPOS)
            return TOP
        if fname == "timedelta":
            total = ZERO
            names = ["days", "seconds", "microseconds", "milliseconds", "minutes", "hours", "weeks"]
            for i, a in enumerate(e.args):
                total = _s_add(total, sign_of(a, env, fn))
            for k in e.keywords:
                if k.arg in names:
                    total = _s_add(total, sign_of(k.value, env, fn))
            return total
        if fname in ("int", "float", "round") and e.args:
            return sign_of(e.args[0], env, fn)
        return TOP
    if isinstance(e, ast.IfExp):
        c = _cond(e.test, env, fn)
        if c is True:
            return sign_of(e.body, env, fn)
        if c is False:
            return sign_of(e.orelse, env, fn)
        a, b = sign_of(e.body, env, fn), sign_of(e.orelse, env, fn)
        return a if a == b else TOP
    return TOP


def _cond(t, env, fn):
    """truth of `x < 0`, `x >= 0`, ... when the sign of x decides it; None otherwise"""
    if isinstance(t, ast.Compare) and len(t.ops) == 1 and isinstance(t.comparators[0], ast.Constant) and t.comparators[0].value == 0:
        s = sign_of(t.left, env, fn)
        op = t.ops[0]
        table = {
            ast.Lt: {NEG: True, POS: False, ZERO: False, NONNEG: False}, ast.LtE: {NEG: True, POS: False, ZERO: True, NONPOS: True},
            ast.Gt: {POS: True, NEG: False, ZERO: False, NONPOS: False}, ast.GtE: {POS: True, NEG: False, ZERO: True, NONNEG: True},
        }
        return table.get(type(op), {}).get(s)
    if isinstance(t, ast.Compare) and len(t.ops) == 1 and isinstance(t.left, ast.Constant) and t.left.value == 0:
        # 0 < x  is  x > 0
        flip = {ast.Lt: ast.Gt, ast.LtE: ast.GtE, ast.Gt: ast.Lt, ast.GtE: ast.LtE}.get(type(t.ops[0]))
        if flip is not None:
            return _cond(ast.Compare(left=t.comparators[0], ops=[flip()], comparators=[t.left]), env, fn)
    if isinstance(t, ast.UnaryOp) and isinstance(t.op, ast.Not):
        c = _cond(t.operand, env, fn)
        return None if c is None else (not c)
    if isinstance(t, ast.Name):
        # a flag bound once at the top level to such a comparison
        from .dataflow import local_defs

        ds = local_defs(fn).get(t.id, [])
        if len(ds) == 1 and ds[0].kind == "assign" and isinstance(ds[0].value, ast.AST):
            return _cond(ds[0].value, env, fn)
    return None


def _reachable_returns(stmts, env, fn, out):
    """returns that can execute when the signs in env hold (conditions the signs decide prune a branch);
    True when every path through stmts has returned"""
    for st in stmts:
        if isinstance(st, ast.Return):
            if st.value is not None:
                out.append(st)
            return True
        if isinstance(st, ast.Raise):
            return True
        if isinstance(st, ast.If):
            c = _cond(st.test, env, fn)
            if c is True:
                if _reachable_returns(st.body, env, fn, out):
                    return True
            elif c is False:
                if _reachable_returns(st.orelse, env, fn, out):
                    return True
            else:
                a = _reachable_returns(st.body, env, fn, out)
                b = _reachable_returns(st.orelse, env, fn, out)
                if a and b:
                    return True
        elif isinstance(st, (ast.For, ast.While, ast.With, ast.Try)):
            for fld in ("body", "orelse", "finalbody"):
                _reachable_returns(getattr(st, fld, []) or [], env, fn, out)
    return False


def z_r5_offset_sign(p: Project, rep: Report):
    rep.rule("Z-R5", "sign analysis of utils.gmt_offset: with negative hours and positive minutes every term of the result is negative (the .MM minutes take the sign of the hours, e.g. -3.30 = -(3h30m)); with positive hours every term is positive. A sum of opposite-sign terms (TOP in the sign domain) means minutes are added to negative hours.")
    fn = p.get_function("ofxtools.utils", "gmt_offset").node
    params = params_of(fn)
    rets = [r for r in own_nodes(fn) if isinstance(r, ast.Return) and r.value is not None]
    if not rets:
        raise AnalysisError("gmt_offset returns nothing")
    rel = p.module("ofxtools.utils").relpath
    # module-level numeric constants keep their sign
    consts = {}
    for st in p.module("ofxtools.utils").tree.body:
        if isinstance(st, (ast.Assign, ast.AnnAssign)) and st.value is not None:
            tg = st.targets[0] if isinstance(st, ast.Assign) and len(st.targets) == 1 else (st.target if isinstance(st, ast.AnnAssign) else None)
            v = st.value
            if isinstance(v, ast.UnaryOp) and isinstance(v.op, ast.USub) and isinstance(v.operand, ast.Constant):
                v = ast.Constant(value=-v.operand.value) if isinstance(v.operand.value, (int, float)) else v
            if isinstance(tg, ast.Name) and isinstance(v, ast.Constant) and isinstance(v.value, (int, float)) and not isinstance(v.value, bool) and tg.id not in params:
                consts[tg.id] = POS if v.value > 0 else (NEG if v.value < 0 else ZERO)
    if len(params) < 2:
        # the minutes no longer arrive as a quantity of their own: `[+5.30]` read as ONE decimal number is 5.3 HOURS
        # (5:18), not five hours thirty minutes
        rep.check("Z-R5", "gmt_offset:hours-and-minutes-separate", False, f"utils.gmt_offset() takes {params}: hours and minutes are no longer two quantities - a notation whose fraction counts MINUTES ([+5.30] = 5 h 30 min) read as a decimal number of hours gives 5 h 18 min", tloc(p, fn) if "tloc" in globals() else f"ofxtools/utils.py:{fn.lineno}")
        return
    for hs, want in ((NEG, (NEG,)), (POS, (POS,))):
        env_ = {**consts, params[0]: hs, params[1]: POS}
        live = []
        _reachable_returns(fn.body, env_, fn, live)
        for r in (live or rets):
            i = rets.index(r) if r in rets else 0
            if len(rets) > 1 and len(live) < len(rets):
                i = 0  # one return per sign after pruning: keyed like the single-return form
            got = sign_of(r.value, env_, fn)
            rep.check("Z-R5", f"gmt_offset:return#{i}:hours-{hs}", got in want, f"with {hs.lower()} hours and positive minutes the offset evaluates to sign {got} (expected {want[0]}): the minutes are not given the sign of the hours, so [-3.30] is read as -2:30" if got not in want else "", f"{rel}:{r.lineno}")


EXTREME_DATES = ("datetime.date.min", "datetime.date.max", "datetime.datetime.min", "datetime.datetime.max", "date.min", "date.max")


def z_r6_carrier_date(p: Project, rep: Report):
    rep.rule("Z-R6", "a time of day is moved to GMT by datetime arithmetic on a carrier date: the carrier must leave room for the largest offset on both sides (never date.min / date.max / year 1 / year 9999), or `dt - offset` overflows for offsets that cross midnight at the edge of the calendar")
    from .flat import flat

    ci = p.get_class(TYPES, "Time")
    attrs = {}
    for st in ci.node.body:
        if isinstance(st, (ast.Assign, ast.AnnAssign)) and st.value is not None:
            t = st.targets[0] if isinstance(st, ast.Assign) else st.target
            if isinstance(t, ast.Name):
                attrs[t.id] = st.value
    n = 0
    for name, (kind, fn0) in ci.attrs.items():
        if kind != "func":
            continue
        fn = flat(p, TYPES, fn0, ci)
        ex = Expander(fn)
        for c in own_nodes(fn):
            if not isinstance(c, ast.Call):
                continue
            ft = text(c.func)
            carrier = None
            if ft.endswith("datetime.combine") and c.args:
                carrier = c.args[0]
            elif ft in ("datetime.datetime", "datetime") and len(c.args) >= 3:
                carrier = c.args[0]
            if carrier is None:
                continue
            n += 1
            v = ex.x(carrier)
            if isinstance(v, ast.Attribute) and isinstance(v.value, ast.Name) and v.value.id in ("self", "cls", ci.name) and v.attr in attrs:
                v = attrs[v.attr]
            tv = text(v)
            bad = tv in EXTREME_DATES or (isinstance(v, ast.Constant) and isinstance(v.value, int) and (v.value <= 1 or v.value >= 9999)) or tv in ("datetime.MINYEAR", "datetime.MAXYEAR")
            if isinstance(v, ast.Call) and text(v.func).endswith("date") and v.args and isinstance(v.args[0], ast.Constant) and isinstance(v.args[0].value, int):
                bad = v.args[0].value <= 1 or v.args[0].value >= 9999
            rep.check("Z-R6", f"Time.{name}:carrier-date", not bad, f"the time of day is placed on {tv} before the offset arithmetic: for an offset that crosses midnight the result falls outside the calendar and the conversion raises OverflowError" if bad else "", tloc(p, c))
    if True:
        # clock arithmetic done by hand (whatever other methods do).  The known-wrong recomposition takes whole seconds by
        # int(<timedelta>.total_seconds()) - truncation toward zero - next to <timedelta>.microseconds, which belongs to the
        # FLOORED second: for a negative remainder (a positive offset wrapping back across midnight) with a non-zero
        # fraction the result is one second late
        c0, nf0 = ci.find_method("normalize_to_gmt")
        if nf0 is not None:
            nf = flat(p, TYPES, nf0, ci)
            trunc = [x for x in ast.walk(nf) if isinstance(x, ast.Call) and text(x.func) == "int" and x.args and "total_seconds()" in text(x.args[0])]
            micro = [x for x in ast.walk(nf) if isinstance(x, ast.Attribute) and x.attr == "microseconds"]
            if trunc and micro:
                rep.check("Z-R6", "Time.normalize_to_gmt:carrier-date", False, f"the time of day is moved to GMT without a datetime carrier: `{text(trunc[0])[:50]}` truncates toward zero while `{text(micro[0])}` is the fraction of the floored second - for a time whose positive offset wraps back across midnight and whose milliseconds are not zero the result is one second late (003000.020[+1] -> 23:30:01.020)", tloc(p, trunc[0]))
                return
    if n == 0:
        rep.note("Z-R6 undecided: no carrier datetime recognised in Time")


def z_r7_aware_values_kept(p: Project, rep: Report):
    rep.rule("Z-R7", "an aware datetime / time given to the converter stays the instant it is: the reader for the native type returns its argument itself (or an .astimezone() of it) on every returning path; relabelling it with .replace(tzinfo=...) is a violation (08:15-05:00 would become 08:15 UTC)")
    scal, _types = scalar_types(p)
    n = 0
    for name, key in (("DateTime", "datetime.datetime"), ("Time", "datetime.time")):
        fam = D.family(scal[name], "convert")
        h = fam.handler_for_native(key) if fam else None
        if h is None or h.key == D.DEFAULT:
            rep.note(f"Z-R7 undecided: {name} has no reader registered for {key}")
            continue
        vp = h.value_param()
        rps, _ = h.return_paths()
        for i, (pth, rtxt, sc) in enumerate(rps):
            n += 1
            if rtxt == vp or rtxt.startswith(f"{vp}.astimezone("):
                rep.check("Z-R7", f"{name}.convert[{key}]:return#{i}", True, "", tloc(p, h.fn))
            elif f"{vp}.replace(" in rtxt and "tzinfo" in rtxt:
                rep.check("Z-R7", f"{name}.convert[{key}]:return#{i}", False, f"{h.qualname} returns {rtxt}: the wall-clock fields are kept and the zone is replaced, so a value with a non-zero offset is turned into a different instant", tloc(p, h.fn))
            else:
                rep.note(f"Z-R7 undecided: {h.qualname} returns {rtxt[:80]}")
    if n == 0:
        rep.note("Z-R7 undecided: no returning path in the native readers")


def _pred_eval(e, env):
    """value of a constant predicate over the integer variables in env (Compare / BoolOp / not / range / abs / int
    literals only); raises ValueError for anything else"""
    if isinstance(e, ast.Constant) and isinstance(e.value, (int, bool)):
        return e.value
    if isinstance(e, ast.Name) and e.id in env:
        return env[e.id]
    if isinstance(e, ast.UnaryOp) and isinstance(e.op, ast.USub):
        return -_pred_eval(e.operand, env)
    if isinstance(e, ast.UnaryOp) and isinstance(e.op, ast.Not):
        return not _pred_eval(e.operand, env)
    if isinstance(e, ast.BoolOp):
        vs = [_pred_eval(v, env) for v in e.values]
        return all(vs) if isinstance(e.op, ast.And) else any(vs)
    if isinstance(e, ast.Call) and isinstance(e.func, ast.Name) and e.func.id == "range" and not e.keywords:
        return range(*[_pred_eval(a, env) for a in e.args])
    if isinstance(e, ast.Call) and isinstance(e.func, ast.Name) and e.func.id == "abs" and len(e.args) == 1:
        return abs(_pred_eval(e.args[0], env))
    if isinstance(e, (ast.Tuple, ast.List, ast.Set)):
        return [_pred_eval(x, env) for x in e.elts]
    if isinstance(e, ast.Compare):
        left = _pred_eval(e.left, env)
        for op, c in zip(e.ops, e.comparators):
            right = _pred_eval(c, env)
            r = {ast.Lt: lambda a, b: a < b, ast.LtE: lambda a, b: a <= b, ast.Gt: lambda a, b: a > b, ast.GtE: lambda a, b: a >= b, ast.Eq: lambda a, b: a == b, ast.NotEq: lambda a, b: a != b, ast.In: lambda a, b: a in b, ast.NotIn: lambda a, b: a not in b}.get(type(op))
            if r is None or not r(left, right):
                return False if r is not None else (_ for _ in ()).throw(ValueError("op"))
            left = right
        return True
    raise ValueError(ast.dump(e)[:40])


def z_r8_offset_domain(p: Project, rep: Report):
    rep.rule("Z-R8", "every constant range test on the offset hours between the regex and the timedelta (DateTime.parse_gmt_offset, utils.gmt_offset) admits all of -12..+14, the offsets in civil use (UTC-12 Baker Island to UTC+14 Line Islands): a narrower test refuses texts the notation denotes")
    from .flat import flat

    scal, _ = scalar_types(p)
    dt = scal["DateTime"]
    c, pfn0 = dt.find_method("parse_gmt_offset")
    units = [("ofxtools.utils", "gmt_offset", p.get_function("ofxtools.utils", "gmt_offset").node)]
    if pfn0 is not None:
        units.append((TYPES, "DateTime.parse_gmt_offset", flat(p, TYPES, pfn0, dt)))
    need = set(range(-12, 15))
    n = 0
    for modname, label, fn in units:
        rel = p.module(modname).relpath
        for st in ast.walk(fn):
            if isinstance(st, ast.Assert):
                test, admit_when = st.test, True
            elif isinstance(st, ast.If) and st.body and isinstance(st.body[-1], ast.Raise) and not st.orelse:
                test, admit_when = st.test, False
            else:
                continue
            names = sorted({x.id for x in ast.walk(test) if isinstance(x, ast.Name) and x.id not in ("range", "abs")})
            # module-level integer constants (and ranges of them) used in the test are part of the constant predicate
            consts_ = {}
            for nm_ in list(names):
                if p.has_binding(modname, nm_) and nm_ not in [a.arg for a in getattr(fn, "args", ast.arguments(args=[])).args]:
                    v_ = p.resolve(modname, nm_)
                    if isinstance(v_, int) and not isinstance(v_, bool):
                        consts_[nm_] = v_
                        names.remove(nm_)
                    elif isinstance(v_, (tuple, list)) and all(isinstance(x_, int) for x_ in v_):
                        consts_[nm_] = list(v_)
                        names.remove(nm_)
                    else:
                        bind_ = [pl for bn, kd, pl in p.module(modname).bindings if bn == nm_ and kd == "assign"]
                        if len(bind_) == 1 and isinstance(bind_[0], ast.AST):
                            try:
                                consts_[nm_] = _pred_eval(bind_[0], dict(consts_))
                                names.remove(nm_)
                            except (ValueError, TypeError):
                                pass
            if len(names) != 1 or "hour" not in names[0].lower():
                continue
            try:
                admitted = {h for h in range(-40, 41) if bool(_pred_eval(test, {**consts_, names[0]: h})) is admit_when}
            except (ValueError, TypeError):
                rep.note(f"Z-R8 undecided: {label}: test {text(test)[:60]} not evaluated")
                continue
            n += 1
            missing = sorted(need - admitted)
            rep.check("Z-R8", f"{label}:{text(test)[:40]}", not missing, f"the test {text(test)} refuses offset hours {missing}: date-times written in those zones (e.g. [+14:LINT]) are rejected although the notation denotes them" if missing else "", f"{rel}:{st.lineno}")
    rep.unit("offset_range_tests", n)
    if n == 0:
        rep.note("Z-R8 undecided: no constant range test on the offset hours found")


_MUTATORS = {"setdefault", "update", "append", "add", "pop", "popitem", "clear", "extend", "insert", "remove", "discard", "__setitem__"}


def _module_tables(p: Project, modname: str):
    """{name: stmt} of module-level names bound to a mutable container"""
    out = {}
    for st in p.module(modname).tree.body:
        tg = st.targets[0] if isinstance(st, ast.Assign) and len(st.targets) == 1 else (st.target if isinstance(st, ast.AnnAssign) and st.value is not None else None)
        if not isinstance(tg, ast.Name):
            continue
        v = st.value
        if isinstance(v, (ast.Dict, ast.List, ast.Set, ast.DictComp, ast.ListComp, ast.SetComp)) or (isinstance(v, ast.Call) and (dotted(v.func) or "").split(".")[-1] in ("dict", "list", "set", "defaultdict", "OrderedDict", "WeakValueDictionary", "WeakKeyDictionary", "deque")):
            out[tg.id] = st
    return out


def _written_in_functions(p: Project, modname: str, name: str):
    """first statement inside a function of the module that changes the module-level container `name` in place"""
    for fnode in ast.walk(p.module(modname).tree):
        if not isinstance(fnode, (ast.FunctionDef, ast.Lambda)):
            continue
        for x in ast.walk(fnode):
            if isinstance(x, ast.Subscript) and isinstance(x.ctx, (ast.Store, ast.Del)) and isinstance(x.value, ast.Name) and x.value.id == name:
                return x
            if isinstance(x, ast.Call) and isinstance(x.func, ast.Attribute) and x.func.attr in _MUTATORS and isinstance(x.func.value, ast.Name) and x.func.value.id == name:
                return x
    return None


def z_r9_no_value_memo(p: Project, rep: Report):
    rep.rule("Z-R9", "what the date-time writer and readers emit is computed from the value at hand: none of them (helpers inlined) reads a module-level container that code of the same module fills at run time.  A memo of formatted offsets / parsed zones is keyed by something coarser than the value (the zone's name, its str()), and zones that share the key but not the offset - dateutil/zoneinfo zones across a DST change, two fixed offsets given one name - are then written with the offset of whichever value came first: the text denotes another instant")
    from .flat import flat

    scal, _ = scalar_types(p)
    units = [("format_datetime", flat(p, TYPES, p.get_function(TYPES, "format_datetime").node), p.get_function(TYPES, "format_datetime").node)]
    for cname in ("DateTime", "Time"):
        ci = scal[cname]
        for mname in ("parse_gmt_offset", "normalize_to_gmt"):
            c, f0 = ci.find_method(mname)
            if f0 is not None:
                units.append((f"{cname}.{mname}", flat(p, TYPES, f0, ci), f0))
        for fam in ("convert", "unconvert"):
            for key, h in D.family(ci, fam).table.items():
                units.append((f"{cname}.{h.fn.name}", h.ffn, h.fn))
    # public module-level helpers these routines call (not inlined by name policy) are part of them
    from .source import Func as _Func9

    grown = True
    rounds = 0
    while grown and rounds < 3:
        grown, rounds = False, rounds + 1
        have = {u[0] for u in units}
        for label, fn, fn0 in list(units):
            for c_ in ast.walk(fn):
                if isinstance(c_, ast.Call) and isinstance(c_.func, ast.Name) and c_.func.id not in have:
                    r_ = p.resolve(TYPES, c_.func.id)
                    if isinstance(r_, _Func9) and r_.module == TYPES:
                        units.append((c_.func.id, flat(p, TYPES, r_.node), r_.node))
                        have.add(c_.func.id)
                        grown = True
    tables = {TYPES: _module_tables(p, TYPES), "ofxtools.utils": _module_tables(p, "ofxtools.utils")}
    n = 0
    seen = set()
    for label, fn, fn0 in units:
        if label in seen:
            continue
        seen.add(label)
        n += 1
        bad = None
        for x in ast.walk(fn):
            modname = name = None
            if isinstance(x, ast.Name) and isinstance(x.ctx, ast.Load) and x.id in tables[TYPES]:
                modname, name = TYPES, x.id
            elif isinstance(x, ast.Attribute) and isinstance(x.value, ast.Name) and x.value.id == "utils" and x.attr in tables["ofxtools.utils"]:
                modname, name = "ofxtools.utils", x.attr
            if name is None:
                continue
            w = _written_in_functions(p, modname, name)
            if w is not None:
                bad = (name, modname, w)
                break
        rep.check("Z-R9", f"{label}:no-run-time-table", bad is None, f"reads the module-level container {bad[0]}, which {p.module(bad[1]).relpath}:{bad[2].lineno} fills at run time ({text(bad[2])[:50]}): the result for one value depends on which values were converted before it - entries made for one zone answer for every zone that shares the key" if bad else "", tloc(p, fn0))
    rep.unit("date_routines_checked_for_memo_tables", n)


def z_r5b_sign_of_zero_hours(p: Project, rep: Report):
    """[-0.30]: the hours field is zero, the sign lives in the TEXT only"""
    from .flat import flat

    rep.rule("Z-R5b", "the sign of an offset survives an hours field of zero ([-0.30], which the library itself writes for offsets between -1:00 and 0): int('-0') == 0 has no sign, so where the hours text goes through int() the result must also depend on a test of the text's sign character ('-' prefix); a float() conversion keeps it (-0.0) only if the sign is then taken by copysign")
    ci = p.get_class(TYPES, "DateTime")
    fn0 = None
    for name, (kind, f_) in ci.attrs.items():
        if kind == "func" and any(isinstance(c, ast.Call) and (dotted(c.func) or "").split(".")[-1] == "gmt_offset" for c in ast.walk(f_)) and len(f_.args.args) >= 3:
            fn0 = f_
    if fn0 is None:
        rep.note("Z-R5b undecided: no method of DateTime hands the offset fields to gmt_offset()")
        return
    fn = flat(p, TYPES, fn0, ci)
    params = [a.arg for a in fn0.args.args][1:]
    # the conversion of a text parameter whose result is the hours argument of gmt_offset()
    conv = None
    for c in ast.walk(fn):
        if isinstance(c, ast.Call) and isinstance(c.func, ast.Name) and c.func.id in ("int", "float") and c.args:
            used = [x.id for x in ast.walk(c.args[0]) if isinstance(x, ast.Name) and x.id in params]
            if used and used[0] == params[0]:
                conv = conv or (c.func.id, used[0], c)
    if conv is None:
        rep.note(f"Z-R5b undecided: {fn0.name} converts its hours text neither with int() nor with float()")
        return
    kind, P, call = conv
    where = f"{p.module(TYPES).relpath}:{call.lineno}"
    if kind == "float":
        g = p.get_function("ofxtools.utils", "gmt_offset").node
        gp = params_of(g)
        cs = [c for c in ast.walk(g) if isinstance(c, ast.Call) and (dotted(c.func) or "").split(".")[-1] == "copysign" and len(c.args) == 2 and any(isinstance(x, ast.Name) and x.id == gp[0] for x in ast.walk(c.args[1]))]
        if cs:
            rep.check("Z-R5b", f"{fn0.name}:sign-of-zero-hours", True, "float() keeps -0.0 and gmt_offset takes the sign by copysign", where)
        else:
            rep.note("Z-R5b undecided: hours converted by float() but gmt_offset does not take the sign by copysign")
        return

    def mentions(e):
        return any(isinstance(x, ast.Name) and x.id == P for x in ast.walk(e))

    def has_minus(e):
        return any(isinstance(x, ast.Constant) and isinstance(x.value, str) and "-" in x.value for x in ast.walk(e))

    tested = None
    for x in ast.walk(fn):
        if isinstance(x, ast.Call) and isinstance(x.func, ast.Attribute) and x.func.attr in ("startswith", "count", "find", "index", "partition", "rpartition") and mentions(x.func.value) and any(has_minus(a) for a in x.args):
            tested = x
        elif isinstance(x, ast.Compare) and (mentions(x.left) or any(mentions(c_) for c_ in x.comparators)) and (has_minus(x.left) or any(has_minus(c_) for c_ in x.comparators)):
            tested = x
        elif isinstance(x, ast.Call) and (dotted(x.func) or "").split(".")[-1] in ("match", "search", "fullmatch") and any(mentions(a) for a in x.args) and any(has_minus(a) for a in x.args):
            tested = x
    rep.check("Z-R5b", f"{fn0.name}:sign-of-zero-hours", tested is not None, f"the hours text goes through {text(call)[:30]} and nothing else looks at its sign character: '-0' becomes 0, so [-0.30] - the notation the library itself writes for an offset of minus thirty minutes - is read as +0:30, one hour off" if tested is None else "", where)


def z_r10_offset_of_the_given_value(p: Project, rep: Report):
    """the zone data written is that of the value given, not of a value computed from it"""
    from . import paths as PT
    from .flat import flat

    rep.rule("Z-R10", "the offset and zone name written are those of the value that was given: in format_datetime every .utcoffset() / .tzname() whose result reaches the text is called on the parameter as received - not on the result of datetime arithmetic on it (`value + timedelta` is wall-clock arithmetic: it drops `fold` and re-evaluates the zone's rules for the new wall time, so within half a millisecond of a DST change, and anywhere in the repeated hour, the offset written belongs to another instant)")
    fd0 = p.get_function(TYPES, "format_datetime").node
    fd = flat(p, TYPES, fd0)
    vp = params_of(fd0)[-1]
    try:
        pl = PT.enumerate_paths(fd, None, Expander(fd), resolve=False)
    except AnalysisError as e:
        rep.note(f"Z-R10 undecided: {e}")
        return
    cfg = pl.cfg
    bad = None
    n = 0
    for q in pl:
        if q.outcome != "return":
            continue
        for idx, nid in enumerate(q.nodes):
            nd = cfg.nodes[nid]
            if nd.stmt is None or nd.kind in ("join", "handlers"):
                continue
            for c in nd.calls():
                if isinstance(c.func, ast.Attribute) and c.func.attr in ("utcoffset", "tzname") and not c.args:
                    n += 1
                    recv = PT.value_on_path(q, cfg, c.func.value, upto=idx)
                    if not (isinstance(recv, ast.Name) and recv.id == vp):
                        # a test that only refuses naive values may look at any equivalent value; what matters is
                        # what reaches the text - but a re-bound parameter makes every later read a read of the sum
                        bad = bad or (c, text(recv)[:60])
    if n == 0:
        rep.note("Z-R10 undecided: format_datetime reads no utcoffset() / tzname()")
        return
    rep.check("Z-R10", "format_datetime:zone-data-of-the-given-value", bad is None, f"{text(bad[0])[:40]} is evaluated on `{bad[1]}`, a value computed from the one given: around a change of the zone's offset the text carries the offset of a different instant" if bad else "", tloc(p, bad[0] if bad else fd0))


def _const_table(p: Project, modname: str, name: str):
    """a module-level {str: int} table: a dict display, or `T = {}` filled by ONE module-level loop over the items of
    another literal table with constant-foldable keys (f-strings of the loop variable) and values (loop value +/- int).
    None when it is built any other way."""
    m = p.module(modname)
    v = p.resolve(modname, name)
    if isinstance(v, dict) and v and all(isinstance(k, str) and isinstance(x, int) for k, x in v.items()):
        return dict(v)
    out = {}
    started = False
    for st in m.tree.body:
        if isinstance(st, (ast.Assign, ast.AnnAssign)):
            tg = st.targets[0] if isinstance(st, ast.Assign) and len(st.targets) == 1 else (st.target if isinstance(st, ast.AnnAssign) else None)
            if isinstance(tg, ast.Name) and tg.id == name:
                if isinstance(st.value, ast.Dict) and not st.value.keys:
                    started = True
                else:
                    return None
        elif started and isinstance(st, ast.For) and any(isinstance(x, ast.Subscript) and isinstance(x.ctx, ast.Store) and isinstance(x.value, ast.Name) and x.value.id == name for x in ast.walk(st)):
            it = st.iter
            if not (isinstance(it, ast.Call) and isinstance(it.func, ast.Attribute) and it.func.attr == "items" and isinstance(it.func.value, ast.Name)):
                return None
            src = p.resolve(modname, it.func.value.id)
            if not (isinstance(src, dict) and isinstance(st.target, ast.Tuple) and len(st.target.elts) == 2 and all(isinstance(e, ast.Name) for e in st.target.elts)):
                return None
            kn, vn = st.target.elts[0].id, st.target.elts[1].id
            for k0, v0 in src.items():
                for b in st.body:
                    if not (isinstance(b, ast.Assign) and len(b.targets) == 1 and isinstance(b.targets[0], ast.Subscript) and isinstance(b.targets[0].value, ast.Name) and b.targets[0].value.id == name):
                        return None
                    from .fold import fold

                    key = fold(b.targets[0].slice, {kn: k0, vn: v0}, p, modname)
                    val = fold(b.value, {kn: k0, vn: v0}, p, modname)
                    if val is UNK and isinstance(b.value, ast.BinOp) and isinstance(b.value.op, ast.Sub):
                        l_, r_ = fold(b.value.left, {kn: k0, vn: v0}, p, modname), fold(b.value.right, {kn: k0, vn: v0}, p, modname)
                        val = l_ - r_ if isinstance(l_, int) and isinstance(r_, int) else UNK
                    if not isinstance(key, str) or not isinstance(val, int) or isinstance(val, bool):
                        return None
                    out[key] = val
    return out or None


def z_r12_zone_table_consistent(p: Project, rep: Report):
    """the zone-name table agrees with itself: daylight time is one hour ahead of the standard time of the same zone"""
    rep.rule("Z-R12", "the zone-name table utils.TZS (used when the offset field cannot be read: `[-:EDT]`) is consistent with the names it holds: for every pair <Z>ST / <Z>DT the daylight offset is the standard offset PLUS one hour, and every offset lies in -12..+14 - whether the table is written out or generated from a table of standard times")
    tbl = _const_table(p, "ofxtools.utils", "TZS")
    if tbl is None:
        rep.note("Z-R12 undecided: utils.TZS is neither a literal table nor generated by a recognised constant loop")
        return
    rel = p.module("ofxtools.utils").relpath
    n = 0
    for k, v in sorted(tbl.items()):
        if k.endswith("DT") and (k[:-2] + "ST") in tbl:
            n += 1
            st_ = tbl[k[:-2] + "ST"]
            rep.check("Z-R12", f"TZS[{k}]=TZS[{k[:-2]}ST]+1", v == st_ + 1, f"TZS[{k!r}] = {v} but TZS[{k[:-2] + 'ST'!r}] = {st_}: daylight time is one hour AHEAD of standard time ({st_ + 1}); a date-time stamped [-:{k}] is read {abs(v - st_ - 1)} hour(s) off" if v != st_ + 1 else "", rel)
        if not -12 <= v <= 14:
            rep.check("Z-R12", f"TZS[{k}]:in-range", False, f"TZS[{k!r}] = {v} is not a GMT offset (-12..+14)", rel)
    rep.floor("Z-R12", n, 3, "standard/daylight pairs")
