"""ofxget rules G-R1..7 (C18) and J-R1..2 (C19)."""
from __future__ import annotations

import ast
import re
import configparser
from typing import Dict, List, Optional, Set, Tuple

from .cfg import CFG, assume
from .dataflow import Reaching, local_defs, own_nodes, own_statements, params_of, resolve_values
from .match import Expander, norm, text
from .report import Report
from .rules_client import _bind, _sources
from .rules_request import groupby_inputs_sorted
from .flat import flat
from .loops import loop_views, stores_keyed_by
from .schema import Schema
from .source import AnalysisError, ClassInfo, Func, Project, dotted, parent

OFXGET = "ofxtools.scripts.ofxget"


def gloc(p: Project, node):
    return f"{p.module(OFXGET).relpath}:{getattr(node, 'lineno', '?')}"


def _module_const(p: Project, name: str):
    v = p.resolve(OFXGET, name)
    return v


def _configurable(p: Project) -> Tuple[Dict[str, object], Dict[str, type]]:
    defaults = _module_const(p, "DEFAULTS")
    if not isinstance(defaults, dict):
        raise AnalysisError("ofxget.DEFAULTS is not a literal dict")
    conf: Dict[str, type] = {}
    for tup in ("configurable_srvr", "configurable_user"):
        names = _module_const(p, tup)
        if not isinstance(names, (tuple, list)):
            raise AnalysisError(f"ofxget.{tup} is not a literal tuple")
        for k in names:
            if k in defaults:
                conf[k] = type(defaults[k])
    return defaults, conf


def _fn(p: Project, name: str):
    return p.get_function(OFXGET, name).node


def _argparse_options(p: Project):
    """(dest, action, has explicit default?, default expr, call) for every add_argument call in ofxget"""
    out = []
    m = p.module(OFXGET)
    for n in ast.walk(m.tree):
        if isinstance(n, ast.Call) and isinstance(n.func, ast.Attribute) and n.func.attr == "add_argument":
            flags = [a.value for a in n.args if isinstance(a, ast.Constant) and isinstance(a.value, str)]
            kw = {k.arg: k.value for k in n.keywords if k.arg}
            dest = None
            if "dest" in kw and isinstance(kw["dest"], ast.Constant):
                dest = kw["dest"].value
            else:
                longs = [f for f in flags if f.startswith("--")]
                if longs:
                    dest = longs[0][2:].replace("-", "_")
                elif flags and not flags[0].startswith("-"):
                    dest = flags[0]
                elif flags:
                    dest = flags[0].lstrip("-")
            action = kw["action"].value if "action" in kw and isinstance(kw["action"], ast.Constant) else (text(kw["action"]) if "action" in kw else "store")
            out.append((dest, action, "default" in kw, kw.get("default"), n))
    return out


def cli_layer_rule(p: Project, rep: Report, rule: str = "J-R3"):
    """the command-line layer holds exactly the options that were given: extractns() keeps every (name, value) of the
    namespace whose value is not None - a False given by --no-transactions / --no-balances / --no-positions is a value"""
    if rule == "J-R3":
        rep.rule("J-R3", "options given on the command line reach the request: extractns() keeps every option whose value is not None (a False stored by --no-transactions / --no-balances / --no-positions is kept, so it overrides the default True)")
    ens0 = _fn(p, "extractns")
    ens = flat(p, OFXGET, ens0)
    nsparam = params_of(ens)[0]
    verdict = None
    for lv in loop_views(ens):
        if f"vars({nsparam})" not in text(lv.iter):
            continue
        tn = lv.target_names
        for it, _c, k, v in stores_keyed_by(lv):
            if not (len(tn) == 2 and isinstance(k, ast.Name) and k.id == tn[0] and isinstance(v, ast.Name) and v.id == tn[1]):
                continue
            if it.complex:
                continue
            verdict = sorted(it.filters) == [(f"{tn[1]} is None", False)]
    if verdict is None:
        rep.note(f"{rule} undecided: extractns() does not copy vars(ns) through a recognisable loop / comprehension")
    else:
        rep.check(rule, "extractns:only-options-given", verdict, "" if verdict else "the CLI layer is not `the options whose value is not None`", gloc(p, ens0))


def acctinfo_layer_rule(p: Project, rep: Report, rule: str):
    """discovered accounts rank right after the command line and before every file source"""
    ma0 = _fn(p, "_merge_acctinfo")
    ma = flat(p, OFXGET, ma0)
    mx_ = Expander(ma)
    ins = [c for c in ast.walk(ma) if isinstance(c, ast.Call) and isinstance(c.func, ast.Attribute) and c.func.attr == "insert" and text(c.func.value).endswith(".maps") and len(c.args) == 2]
    if not ins:
        rep.note(f"{rule} undecided: _merge_acctinfo no longer inserts into the chain's maps")
        return
    ok = all(mx_.t(c.args[0]) == "1" for c in ins)
    rep.check(rule, "_merge_acctinfo:after-cli-before-files", ok, "" if ok else f"discovered accounts are inserted at position {[mx_.t(c.args[0]) for c in ins]}, not right after the command-line layer (index 1): with a config file in the chain the file's account lists shadow what the server reports, so --all requests stale / inactive accounts", gloc(p, ma0))


def g_rules(p: Project, rep: Report):
    defaults, conf = _configurable(p)
    rep.unit("defaults_keys", len(defaults))
    rep.unit("configurable_keys", len(conf))

    rep.rule("G-R1", "source order: merge_config builds ChainMap(<CLI namespace>, <user configuration section>, DEFAULTS); the OFX Home lookup is inserted immediately before the defaults; the FI database is read before the user file into the same parser (so the user file overrides it); main() merges that parser")
    mc = _fn(p, "merge_config")
    cfg = CFG(mc)
    reach = Reaching(cfg)
    chains = cfg.nodes_calling(lambda c: (dotted(c.func) or "").split(".")[-1] == "ChainMap")
    if not chains:
        raise AnalysisError("G-R1: merge_config builds no ChainMap")
    nsp, cfgp = params_of(mc)[0], params_of(mc)[1]
    for n in chains:
        c = [x for x in n.calls() if (dotted(x.func) or "").split(".")[-1] == "ChainMap"][0]
        roles = []
        cargs = list(c.args)
        if len(cargs) == 1 and isinstance(cargs[0], ast.Starred) and isinstance(cargs[0].value, ast.Name):
            ds = [d for d in local_defs(mc).get(cargs[0].value.id, []) if d.kind == "assign" and isinstance(d.value, (ast.Tuple, ast.List))]
            if len(ds) == 1:
                cargs = list(ds[0].value.elts)
        for a in cargs:
            src = _sources(a, n, reach)
            if text(a) == "DEFAULTS" or src == {"global:DEFAULTS"}:
                roles.append("defaults")
            elif f"param:{nsp}" in src and f"param:{cfgp}" not in src:
                roles.append("cli")
            elif f"param:{cfgp}" in src or "fn:read_config" in src:
                roles.append("config")
            else:
                roles.append(f"?{sorted(src)}")
        ok = roles == ["cli", "config", "defaults"]
        rep.check("G-R1", "merge_config:ChainMap(cli, config, defaults)", ok, f"sources are chained as {roles}: a lower-ranking source outranks a higher one" if not ok else "", gloc(p, c))
    # ... and nothing picks a value from the individual sources in another order: `a.get(k) or b.get(k)` /
    # `a[k] if .. else b[k]` over two sources of the chain must name the higher-ranking one first
    role_of = {}
    for n in chains:
        c = [x for x in n.calls() if (dotted(x.func) or "").split(".")[-1] == "ChainMap"][0]
        for a in c.args:
            if isinstance(a, ast.Name):
                src = _sources(a, n, reach)
                if text(a) == "DEFAULTS" or src == {"global:DEFAULTS"}:
                    role_of[a.id] = 2
                elif f"param:{nsp}" in src and f"param:{cfgp}" not in src:
                    role_of[a.id] = 0
                elif f"param:{cfgp}" in src or "fn:read_config" in src:
                    role_of[a.id] = 1
    role_of.setdefault("DEFAULTS", 2)

    def _src_read(e):
        """(source name, key text) for <src>.get(k[, d]) / <src>[k]"""
        if isinstance(e, ast.Call) and isinstance(e.func, ast.Attribute) and e.func.attr == "get" and isinstance(e.func.value, ast.Name) and e.func.value.id in role_of and e.args:
            return e.func.value.id, text(e.args[0])
        if isinstance(e, ast.Subscript) and isinstance(e.value, ast.Name) and e.value.id in role_of:
            return e.value.id, text(e.slice)
        return None

    for x in ast.walk(mc):
        seq = None
        if isinstance(x, ast.BoolOp) and isinstance(x.op, ast.Or):
            seq = [_src_read(v) for v in x.values]
        elif isinstance(x, ast.IfExp):
            seq = [_src_read(x.body), _src_read(x.orelse)]
        if not seq or sum(1 for r_ in seq if r_) < 2:
            continue
        reads_ = [r_ for r_ in seq if r_]
        if len({k_ for _s, k_ in reads_}) != 1:
            continue
        ranks = [role_of[s_] for s_, _k in reads_]
        ok = ranks == sorted(ranks)
        rep.check("G-R1", f"merge_config:picks:{reads_[0][1]}:in-rank-order", ok, f"`{text(x)[:70]}` takes {reads_[0][1]} from {reads_[0][0]} before {reads_[1][0]}: the lower-ranking source wins whenever it has a value, so a value given on the command line does not override the saved one" if not ok else "", gloc(p, x))
    # the OFX Home layer is consulted whenever a higher source names an institution id - whatever else is known
    from . import paths as _PT

    mcf = flat(p, OFXGET, mc, keep=("merge_from_ofxhome", "read_config", "extractns"))
    try:
        mpaths = _PT.enumerate_paths(mcf, None, Expander(mcf))
    except AnalysisError as e:
        mpaths = None
        rep.note(f"G-R1 undecided: merge_config paths ({e})")
    if mpaths is not None:
        mcfg = mpaths.cfg
        look = {n.id for n in mcfg.nodes if n.stmt is not None and n.kind not in ("join", "handlers") and any(text(c.func) == "merge_from_ofxhome" for c in n.calls())}
        if not look:
            rep.note("G-R1 undecided: merge_config no longer calls merge_from_ofxhome")
        else:
            bad = None
            decided = 0
            for q in mpaths:
                ats = sorted({a for c, _w in q.conds for a in c.atoms() if a.replace('"', "'").startswith("'ofxhome' in ")})
                if not ats or any(i in look for i in q.nodes):
                    continue
                decided += 1
                for a in ats:
                    if _PT.implies(q.conds, _PT.atom(a, False)) is False:
                        bad = (a, _PT.simple_conds(q.conds))
            if decided:
                rep.check("G-R1", "merge_config:ofxhome-consulted-whenever-configured", bad is None, f"a path skips the OFX Home lookup although `{bad[0]}` may hold (path taken when {bad[1]}): org / fid / brokerid that only OFX Home knows fall through to the built-in defaults as soon as a URL is known from elsewhere" if bad else "", gloc(p, mc))
            else:
                rep.note("G-R1 undecided: no path of merge_config decides on `'ofxhome' in <source>`")
    # cli layer = only what was actually given (None filtered)
    cli_layer_rule(p, rep, rule="G-R1")
    # ofxhome insert position
    mo0 = _fn(p, "merge_from_ofxhome")
    mo = flat(p, OFXGET, mo0)
    mox = Expander(mo)
    ins = [c for c in own_nodes(mo) if isinstance(c, ast.Call) and isinstance(c.func, ast.Attribute) and c.func.attr == "insert" and text(c.func.value).endswith(".maps") and len(c.args) == 2]
    if not ins:
        rep.note("G-R1 undecided: merge_from_ofxhome() no longer inserts into the chain's maps")
    else:
        ok = all(mox.t(c.args[0]) == "-1" for c in ins)
        rep.check("G-R1", "merge_from_ofxhome:inserted-before-defaults", ok, f"the OFX Home lookup is inserted at position {[mox.t(c.args[0]) for c in ins]}: it must rank below CLI, user file and FI database and above the defaults (index -1)" if not ok else "", gloc(p, ins[0]))
    for c in ins:
        d = mox.x(c.args[1])
        if isinstance(d, ast.Dict):
            if not all(isinstance(v, ast.Attribute) and isinstance(k, ast.Constant) for k, v in zip(d.keys, d.values)):
                rep.note("G-R1 undecided: OFX Home layer is a dict whose values are not plain attribute reads")
                continue
            ok = all(v.attr == k.value for k, v in zip(d.keys, d.values)) and len({text(v.value) for v in d.values}) == 1
            rep.check("G-R1", "merge_from_ofxhome:values-from-lookup", ok, "" if ok else "OFX Home values are not stored under their own option names", gloc(p, c))
            if ok:
                # each option independently: whether the record is used at all must not hinge on ONE of its fields
                from . import paths as _PTO

                rec = text(d.values[0].value)
                raw_ = c.args[1]
                if isinstance(raw_, ast.Dict) and raw_.values and isinstance(raw_.values[0], ast.Attribute):
                    rec = text(raw_.values[0].value)  # the local holding the record, as the conditions spell it
                try:
                    opl = _PTO.enumerate_paths(mo, None, mox, resolve=False)
                except AnalysisError:
                    opl = None
                if opl is not None:
                    on_field = None
                    for n_ in [x for x in opl.cfg.nodes if x.stmt is not None and x.kind not in ("join", "handlers") and any(cc is c or text(cc) == text(c) for cc in x.calls())]:
                        for q in opl:
                            cb = q.conds_before(n_.id)
                            if cb is None:
                                continue
                            for cnd, _w in cb:
                                for a in cnd.atoms():
                                    if f"{rec}." in a:
                                        on_field = a
                    rep.check("G-R1", "merge_from_ofxhome:record-used-whatever-its-fields", on_field is None, f"the OFX Home layer is inserted only when `{on_field}`: a record lacking that one field is ignored as a whole, so the options it does carry (org, fid, brokerid) fall through to the built-in defaults although nothing higher-ranking sets them" if on_field else "", gloc(p, c))
        elif isinstance(d, ast.DictComp) and len(d.generators) == 1 and isinstance(d.generators[0].target, ast.Name) and not d.generators[0].ifs:
            var = d.generators[0].target.id
            v = d.value
            same = isinstance(d.key, ast.Name) and d.key.id == var and isinstance(v, ast.Call) and isinstance(v.func, ast.Name) and v.func.id == "getattr" and len(v.args) == 2 and text(v.args[1]) == var
            if same:
                rep.check("G-R1", "merge_from_ofxhome:values-from-lookup", True, "", gloc(p, c))
            else:
                rep.note("G-R1 undecided: OFX Home layer is built by an unrecognised comprehension")
        else:
            rep.note("G-R1 undecided: OFX Home layer is not a dict display")
    # FI db then user file
    m = p.module(OFXGET)
    # the sources loaded into USERCFG at import time, in order: USERCFG.read([a, b]) / successive USERCFG.read(x) and
    # USERCFG.read_dict(d) statements / USERCFG = <helper>(UserConfig(), (a, b)) whose helper reads its paths in turn
    from .source import Func as _Func

    seq = []
    first_node = None
    for st in m.tree.body:
        if isinstance(st, (ast.FunctionDef, ast.AsyncFunctionDef, ast.ClassDef)):
            continue
        for n in ast.walk(st):
            if not isinstance(n, ast.Call):
                continue
            if isinstance(n.func, ast.Attribute) and n.func.attr in ("read", "read_dict", "read_file", "read_string") and text(n.func.value) == "USERCFG" and n.args:
                first_node = first_node or n
                a0 = n.args[0]
                seq += [text(e) for e in a0.elts] if isinstance(a0, (ast.List, ast.Tuple)) else [text(a0)]
            elif isinstance(st, (ast.Assign, ast.AnnAssign)) and n is st.value and isinstance(n.func, ast.Name) and any(isinstance(t_, ast.Name) and t_.id == "USERCFG" for t_ in (st.targets if isinstance(st, ast.Assign) else [st.target])):
                h_ = p.resolve(OFXGET, n.func.id)
                if isinstance(h_, _Func) and len(n.args) == 2 and isinstance(n.args[1], (ast.List, ast.Tuple)):
                    hp_ = [a.arg for a in h_.node.args.args]
                    in_turn = any(isinstance(l_, ast.For) and text(l_.iter) == hp_[1] and any(isinstance(c_, ast.Call) and isinstance(c_.func, ast.Attribute) and c_.func.attr == "read" and text(c_.func.value) == hp_[0] for c_ in ast.walk(l_)) for l_ in ast.walk(h_.node))
                    whole = any(isinstance(c_, ast.Call) and isinstance(c_.func, ast.Attribute) and c_.func.attr == "read" and text(c_.func.value) == hp_[0] and c_.args and text(c_.args[0]) == hp_[1] for c_ in ast.walk(h_.node))
                    if len(hp_) == 2 and (in_turn or whole):
                        first_node = first_node or n
                        seq += [text(e) for e in n.args[1].elts]
    if not seq:
        rep.note("G-R1 undecided: how USERCFG is loaded at import time is not recognised")
    else:
        fi_like = [i for i, x in enumerate(seq) if x in ("CONFIGPATH", "LIBCFG")]
        user_ = [i for i, x in enumerate(seq) if x == "USERCONFIGPATH"]
        ok = bool(user_) and bool(fi_like) and max(fi_like) < min(user_) and set(seq) <= {"CONFIGPATH", "LIBCFG", "USERCONFIGPATH"}
        rep.check("G-R1", "USERCFG.read:fi-db-then-user-file", ok, f"USERCFG is loaded from {seq}: the user's file must be read after (and so override) the bundled FI database" if not ok else "", gloc(p, first_node))
    # LIBCFG is `what the lower-ranking sources supply` (mk_server_cfg saves only what differs from it, and clears what
    # equals it): it is loaded from the bundled FI database alone
    lib_seq, lib_node = [], None
    for st in m.tree.body:
        if isinstance(st, (ast.FunctionDef, ast.AsyncFunctionDef, ast.ClassDef)):
            continue
        for n in ast.walk(st):
            if isinstance(n, ast.Call) and isinstance(n.func, ast.Attribute) and n.func.attr in ("read", "read_dict", "read_file", "read_string") and text(n.func.value) == "LIBCFG" and n.args:
                lib_node = lib_node or n
                a0 = n.args[0]
                lib_seq += [text(e) for e in a0.elts] if isinstance(a0, (ast.List, ast.Tuple)) else [text(a0)]
    if lib_seq:
        extra = [x for x in lib_seq if x != "CONFIGPATH"]
        if all(x in ("CONFIGPATH", "USERCONFIGPATH", "USERCFG") for x in lib_seq):
            rep.check("G-R1", "LIBCFG.read:fi-db-only", not extra, f"LIBCFG is loaded from {lib_seq}: with the user's own file in it, mk_server_cfg() takes the settings saved earlier for what the FI database supplies - the next --write for that server finds them `equal to the lower sources` and removes them from the user's section (the second `ofxget ... --write` empties what the first one saved)" if extra else "", gloc(p, lib_node))
        else:
            rep.note(f"G-R1 undecided: LIBCFG is loaded from {lib_seq}")
    mainf = _fn(p, "main")
    ok = any(isinstance(c, ast.Call) and text(c.func) == "merge_config" and len(c.args) == 2 and text(c.args[1]) == "USERCFG" for c in own_nodes(mainf))
    rep.check("G-R1", "main:merges-USERCFG", ok, "" if ok else "main() does not merge the layered USERCFG", gloc(p, mainf))
    acctinfo_layer_rule(p, rep, "G-R1")

    rep.rule("G-R2", "every option key read as args[<k>] anywhere in ofxget (including loops over constant tuples) and every argparse dest is a key of DEFAULTS (the bottom layer), so every lookup is total and every option has a default")
    keys: Dict[str, ast.AST] = {}
    for qn, cls, fn0_ in m.functions():
        if "." in qn and cls is None:
            continue  # nested helpers are seen inlined in their enclosing function
        try:
            fn = flat(p, OFXGET, fn0_, p.classinfo(OFXGET, cls) if cls is not None else None)
        except Exception:
            fn = fn0_
        for n in ast.walk(fn):
            if isinstance(n, ast.Subscript) and isinstance(n.value, ast.Name) and n.value.id in ("args", "merged") and isinstance(n.ctx, ast.Load):
                if isinstance(n.slice, ast.Constant) and isinstance(n.slice.value, str):
                    keys.setdefault(n.slice.value, n)
                elif isinstance(n.slice, ast.Name):
                    for t, it in _enclosing_bindings(n, fn):
                        if isinstance(t, ast.Name) and t.id == n.slice.id:
                            for k in _const_iter(it, p) or []:
                                keys.setdefault(k, n)
    allowed_extra = {"request"}  # set by the sub-command parsers via set_defaults
    for k, node in sorted(keys.items()):
        ok = k in defaults or k in allowed_extra
        rep.check("G-R2", f"args[{k!r}]", ok, f"args[{k!r}] is read but DEFAULTS has no such key: KeyError whenever no higher source sets it" if not ok else "", gloc(p, node))
    rep.floor("G-R2", len(keys), 35, "distinct option keys read")
    from .argdecl import declared_options

    decls = declared_options(p, OFXGET)
    for d in decls:
        if not d.resolved:
            rep.note(f"G-R2/G-R6 undecided: an add_argument call at {gloc(p, d.call)} whose flags could not be folded")
    opts = [(d.dest, d.action, d.has_default, d.default, d.call) for d in decls if d.resolved]
    for dest, action, has_default, dflt, call in opts:
        if dest in ("help", None):
            continue
        ok = dest in defaults or dest in allowed_extra
        rep.check("G-R2", f"argparse:{dest}", ok, f"command-line option '{dest}' has no entry in DEFAULTS" if not ok else "", gloc(p, call))
    rep.floor("G-R2", len(decls), 35, "argparse options")

    rep.rule("G-R6", "absence on the command line must not outrank lower sources: every argparse option whose dest can also come from a configuration source has an effective argparse default of None (store_true/store_false/count need an explicit default=None)")
    for dest, action, has_default, dflt, call in opts:
        if dest not in conf:
            continue
        from .source import UNK as _UNK

        if has_default and dflt is _UNK:
            rep.note(f"G-R6 undecided: default of --{dest} is not a constant")
            continue
        if action in ("store_true", "store_false", "count", "store_const", "append_const"):
            ok = has_default and dflt is None
        else:
            ok = (not has_default) or dflt is None
        rep.check("G-R6", f"argparse:{dest}:default-None", ok, f"--{dest} (action={action}) yields {dflt if has_default else 'False/0'!r} when absent; extractns() keeps it, so the absent flag overrides the user file / FI database value" if not ok else "", gloc(p, call))

    rep.rule("G-R3", "every persistable option is a DEFAULTS key and its type has both a reader (read_config handlers) and a writer (arg2config handlers); the password is not persistable; the boolean writer emits tokens ConfigParser reads back with the same polarity; the list writer's separator is the list reader's")
    for tup in ("configurable_srvr", "configurable_user"):
        for k in _module_const(p, tup):
            rep.check("G-R3", f"{tup}:{k}", k in defaults, f"'{k}' is listed as persistable but is not a DEFAULTS key: it is silently neither read nor written" if k not in defaults else "", gloc(p, m.tree))
    rep.check("G-R3", "password-not-persistable", "password" not in conf and "savepass" not in conf, "the password is in the persistable set: --write stores it in the configuration file" if "password" in conf else "", gloc(p, m.tree))
    want_persist = {"url", "version", "pretty", "unclosedelements", "org", "fid", "bankid", "brokerid", "appid", "appver", "language", "user", "clientuid",
                    "checking", "savings", "moneymrkt", "creditline", "creditcard", "investment"}
    miss = sorted(want_persist - set(conf))
    rep.check("G-R3", "persistable-set-covers-property", not miss, f"options the property says persist are not persistable: {miss}" if miss else "", gloc(p, m.tree))
    types = {t.__name__ for t in conf.values()}
    rc0, a2c0 = _fn(p, "read_config"), _fn(p, "arg2config")
    rc, a2c = flat(p, OFXGET, rc0), flat(p, OFXGET, a2c0)
    TYPE_NAMES = ("bool", "int", "list", "str", "float")

    def handler_keys(fn):
        """the type-keyed dispatch dict of fn, whatever it is called: {type name: handler expr}"""
        best = {}
        for d in ast.walk(fn):
            if isinstance(d, ast.Dict):
                ks = {text(k): v for k, v in zip(d.keys, d.values) if k is not None}
                if sum(1 for k in ks if k in TYPE_NAMES) >= 2 and len(ks) > len(best):
                    best = ks
        return best

    def handler_body(fn, h):
        """(parameter name, returned expression) of a handler given as a lambda or as the name of a nested function"""
        if isinstance(h, ast.Lambda) and len(h.args.args) == 1:
            return h.args.args[0].arg, h.body
        if isinstance(h, ast.Name):
            for st in ast.walk(fn):
                if isinstance(st, ast.FunctionDef) and st.name == h.id and st is not fn:
                    rs = [r for r in own_nodes(st) if isinstance(r, ast.Return) and r.value is not None]
                    if len(rs) == 1 and st.args.args:
                        return st.args.args[-1].arg, Expander(st).x(rs[0].value)
        return None, None

    rk, wk = handler_keys(rc), handler_keys(a2c)
    rk_fn = rc
    if not rk:
        # the table may live in a function read_config() calls for each option (a `config2arg` mirroring arg2config)
        om_ = p.module(OFXGET)
        for c_ in [x for x in ast.walk(rc) if isinstance(x, ast.Call) and isinstance(x.func, ast.Name)]:
            callee = next((st for st in om_.tree.body if isinstance(st, ast.FunctionDef) and st.name == c_.func.id), None)
            if callee is not None and handler_keys(callee):
                rk, rk_fn = handler_keys(callee), callee
                break
    if not rk:
        rep.note("G-R3 undecided: read_config() has no type-keyed table of getters")
    if not wk:
        rep.note("G-R3 undecided: arg2config() has no type-keyed table of writers")
    for t in sorted(types):
        if rk:
            rep.check("G-R3", f"reader[{t}]", t in rk, f"no read_config handler for {t}: persisted {t} options are read back as something else" if t not in rk else "", gloc(p, rc0))
        if wk:
            rep.check("G-R3", f"writer[{t}]", t in wk, f"no arg2config handler for {t}" if t not in wk else "", gloc(p, a2c0))
    want_readers = {"bool": "getboolean", "int": "getint", "list": "getlist", "str": "get"}
    for t, w in want_readers.items():
        if t in rk:
            h = rk[t]
            if isinstance(h, ast.Attribute):
                rep.check("G-R3", f"reader[{t}]:typed", h.attr == w, f"{t} options are read with {text(h)}, expected .{w}" if h.attr != w else "", gloc(p, rc0))
            elif t == "bool":
                # a hand-written boolean reader: ConfigParser's own spellings are 1/yes/true/on and 0/no/false/off
                # (any case); a reader that knows only one of them reads the others as False
                par_, body_ = handler_body(rk_fn, h)
                if body_ is not None and ("getboolean" in text(body_) or "BOOLEAN_STATES" in text(body_)):
                    rep.check("G-R3", "reader[bool]:typed", True, "", gloc(p, rc0))
                elif isinstance(body_, ast.Compare) and len(body_.ops) == 1 and isinstance(body_.ops[0], (ast.Eq, ast.In)):
                    rhs = body_.comparators[0]
                    toks = [rhs.value] if isinstance(rhs, ast.Constant) else ([e.value for e in rhs.elts if isinstance(e, ast.Constant)] if isinstance(rhs, (ast.Tuple, ast.List, ast.Set)) else None)
                    if toks is not None:
                        truths = {k for k, v in configparser.RawConfigParser.BOOLEAN_STATES.items() if v}
                        missing = sorted(truths - {str(x).lower() for x in toks})
                        rep.check("G-R3", "reader[bool]:typed", not missing, f"boolean options are read as `{text(body_)[:50]}`: the spellings {missing} - legal in an INI file and in the bundled FI database's format - are read as False, so a flag the user's file sets does not take effect" if missing else "", gloc(p, rc0))
                    else:
                        rep.note(f"G-R3 undecided: reader for bool is {text(h)[:60]}")
                else:
                    rep.note(f"G-R3 undecided: reader for bool is {text(h)[:60]}")
            elif t == "str":
                # a hand-written string reader: what it returns is the stored text, unedited - the writer stores the text as
                # it is, so a reader that strips quotes / blanks / a prefix returns another value than the one saved
                par_, body_ = handler_body(rk_fn, h)
                if body_ is None:
                    rep.note(f"G-R3 undecided: reader for str is {text(h)[:60]}")
                else:
                    edits = [x.func.attr for x in ast.walk(body_) if isinstance(x, ast.Call) and isinstance(x.func, ast.Attribute) and x.func.attr in ("strip", "lstrip", "rstrip", "replace", "lower", "upper", "title", "removeprefix", "removesuffix", "translate", "split", "casefold")] + ["[slice]" for x in ast.walk(body_) if isinstance(x, ast.Subscript) and isinstance(x.slice, ast.Slice)]
                    plain = isinstance(body_, ast.Call) and isinstance(body_.func, ast.Attribute) and body_.func.attr == "get"
                    if edits:
                        rep.check("G-R3", "reader[str]:typed", False, f"string options are read as `{text(body_)[:50]}`: the stored text is edited on the way in ({', '.join(edits)}) while the writer stores it as it is - a URL / ORG / user id that begins or ends with the stripped characters comes back as another value on the next run", gloc(p, rc0))
                    elif plain:
                        rep.check("G-R3", "reader[str]:typed", True, "", gloc(p, rc0))
                    else:
                        rep.note(f"G-R3 undecided: reader for str is {text(h)[:60]}")
            else:
                rep.note(f"G-R3 undecided: reader for {t} is {text(h)[:60]}")
    # bool writer polarity
    if "bool" in wk:
        par, body = handler_body(a2c, wk["bool"])
        d = [x for x in ast.walk(body) if isinstance(x, ast.Dict)] if body is not None else []
        if d:
            mp = {k.value: v.value for k, v in zip(d[0].keys, d[0].values) if isinstance(k, ast.Constant) and isinstance(v, ast.Constant)}
            states = configparser.RawConfigParser.BOOLEAN_STATES
            ok = set(mp) == {True, False} and all(states.get(str(v).lower()) is k for k, v in mp.items())
            rep.check("G-R3", "writer[bool]:polarity", ok, "the boolean writer emits tokens that ConfigParser.getboolean reads back differently" if not ok else "", gloc(p, a2c0))
        elif isinstance(body, ast.IfExp) and all(isinstance(x, ast.Constant) for x in (body.body, body.orelse)) and text(body.test) == par:
            states = configparser.RawConfigParser.BOOLEAN_STATES
            ok = states.get(str(body.body.value).lower()) is True and states.get(str(body.orelse.value).lower()) is False
            rep.check("G-R3", "writer[bool]:polarity", ok, "the boolean writer emits tokens that ConfigParser.getboolean reads back differently" if not ok else "", gloc(p, a2c0))
        elif body is not None and isinstance(body, ast.Call) and text(body) in (f"str({par}).lower()", f"str({par})"):
            rep.check("G-R3", "writer[bool]:polarity", True, "", gloc(p, a2c0))
        else:
            rep.note("G-R3 undecided: boolean writer not recognised")
    if "list" in wk:
        par, body = handler_body(a2c, wk["list"])
        if body is None:
            rep.note("G-R3 undecided: list writer not recognised")
        else:
            from .fold import fold as _fold_l

            t = text(body).replace(par, "value") if par else text(body)
            # writer: str(list) with the brackets and quotes removed (', ' separated), or <sep>.join(...) with a
            # separator made of one comma and blanks
            w_ok = "str(value)" in t and "strip('[]')" in t
            if not w_ok and isinstance(body, ast.Call) and isinstance(body.func, ast.Attribute) and body.func.attr == "join":
                sep_ = _fold_l(body.func.value, {}, p, OFXGET)
                w_ok = isinstance(sep_, str) and sep_.count(",") == 1 and sep_.replace(",", "").strip() == ""
            # reader: splits on the comma ALONE and trims each piece - so that `a,b`, `a, b` and lists continued over
            # lines are all read; a reader that splits on the writer's ', ' reads a hand-written `a,b` as ONE account
            cl = _fn(p, "convert_list")
            splits = [c_ for c_ in ast.walk(cl) if isinstance(c_, ast.Call) and isinstance(c_.func, ast.Attribute) and c_.func.attr == "split"]
            seps = [_fold_l(c_.args[0], {}, p, OFXGET) if c_.args else None for c_ in splits]
            strips = any(isinstance(c_, ast.Call) and isinstance(c_.func, ast.Attribute) and c_.func.attr == "strip" and not c_.args for c_ in ast.walk(cl))
            # a pattern split: <compiled regex>.split(text) / re.split(<pattern>, text)
            rx_split = None
            for c_ in splits:
                recv_ = c_.func.value
                pat_ = None
                if isinstance(recv_, ast.Name) and recv_.id != "re" and p.has_binding(OFXGET, recv_.id):
                    try:
                        from . import rx as _rx

                        pat_ = _rx.module_regex(p, OFXGET, recv_.id)
                    except AnalysisError:
                        pat_ = None
                if pat_ is not None:
                    rx_split = (c_, pat_)
            if rx_split is not None:
                from . import rx as _rx

                c_, pat_ = rx_split
                cc_ = _rx.sre_c

                def _needs_comma(seq_):
                    """every string the sequence matches contains a comma"""
                    for op_, av_ in seq_:
                        if op_ is cc_.LITERAL and av_ == ord(","):
                            return True
                        if op_ is cc_.SUBPATTERN and _needs_comma(av_[-1]):
                            return True
                        if op_ in (cc_.MAX_REPEAT, cc_.MIN_REPEAT) and av_[0] >= 1 and _needs_comma(av_[2]):
                            return True
                        if op_ is cc_.BRANCH and all(_needs_comma(alt_) for alt_ in av_[1]):
                            return True
                    return False

                needs = _needs_comma(list(pat_.tree))
                rep.check("G-R3", "writer[list]/reader[list]:separator", needs and w_ok, f"the list reader splits on the pattern {pat_.pattern!r}, which also matches a run of blanks without a comma: an account number saved as `12 3456 789` (the writer keeps inner blanks) is read back as three accounts" if not needs else ("list writer and list reader disagree on the ', ' separated form" if not w_ok else ""), gloc(p, cl))
            elif not splits or any(not isinstance(s_, str) for s_ in seps):
                rep.note("G-R3 undecided: list reader not recognised")
            else:
                r_ok = all(s_ == "," for s_ in seps) and strips
                why_ = ""
                if not r_ok:
                    why_ = f"the list reader splits on {seps[0]!r}" + ("" if strips else " and does not trim the pieces") + ": a list written `111,222` (no blank - the form the documentation shows) or continued over lines is read as one bogus account id, so none of the configured accounts is requested"
                elif not w_ok:
                    why_ = "list writer and list reader disagree on the ', ' separated form"
                rep.check("G-R3", "writer[list]/reader[list]:separator", r_ok and w_ok, why_, gloc(p, a2c0 if r_ok else cl))
    # mk_server_cfg writes every CONFIGURABLE option present, through arg2config, into the server's section
    mk0 = _fn(p, "mk_server_cfg")
    mk = flat(p, OFXGET, mk0)
    seen_loop, wrote = False, False
    for lv in loop_views(mk):
        if text(lv.iter) not in ("CONFIGURABLE.items()", "CONFIGURABLE", "CONFIGURABLE.keys()"):
            continue
        seen_loop = True
        tn = lv.target_names
        for it, cont, k, v in stores_keyed_by(lv, tn[0] if tn else None):
            if isinstance(v, ast.Call) and text(v.func) == "arg2config" and v.args and text(v.args[0]) == tn[0]:
                wrote = True
    if not seen_loop:
        rep.note("G-R3 undecided: mk_server_cfg() has no loop over CONFIGURABLE")
    else:
        rep.check("G-R3", "mk_server_cfg:writes-all-configurable", wrote, "" if wrote else "mk_server_cfg does not write cfg[opt] = arg2config(opt, opt_type, value) for every CONFIGURABLE option", gloc(p, mk0))
    # read_config reads every persisted option of the section
    rx = Expander(rc)
    verdict = None
    for lv in loop_views(rc):
        itx = rx.t(lv.iter)
        if not (itx.startswith(f"{params_of(rc)[0]}[") or text(lv.iter) == "proxy"):
            continue
        tn = lv.target_names
        for it, cont, k, v in stores_keyed_by(lv, tn[0] if tn else None):
            if it.complex:
                continue
            fs = sorted(set(it.filters))
            verdict = fs == [(f"{tn[0]} in CONFIGURABLE", True)]
    # what was read is what is returned: not passed through a function that drops entries
    from .paths import return_paths as _rps

    try:
        rc_rps, _rc_pl = _rps(rc, None, Expander(rc))
    except AnalysisError:
        rc_rps = []
    for _q, rtxt_, _sc in rc_rps:
        try:
            v_ = ast.parse(rtxt_, mode="eval").body
        except SyntaxError:
            continue
        r_ = rc0
        if isinstance(v_, ast.Call) and isinstance(v_.func, ast.Name):
            tgt_ = p.resolve(OFXGET, v_.func.id)
            if isinstance(tgt_, Func):
                drops = any(isinstance(c_, (ast.DictComp, ast.ListComp, ast.GeneratorExp, ast.SetComp)) and any(g.ifs for g in c_.generators) for c_ in ast.walk(tgt_.node)) or any(isinstance(c_, ast.Call) and text(c_.func) == "filter" for c_ in ast.walk(tgt_.node))
                if drops:
                    rep.check("G-R3", "read_config:returns-what-it-read", False, f"read_config() passes what it read through {v_.func.id}(), which drops entries: an option the section sets to a blank value no longer counts as set, and a lower-ranking source (OFX Home, the defaults) takes over", gloc(p, r_))
    if verdict is None:
        rep.note("G-R3 undecided: read_config() does not read the section through a recognisable loop / comprehension")
    else:
        rep.check("G-R3", "read_config:reads-all-configurable", verdict, "" if verdict else "read_config does not read every CONFIGURABLE option present in the section", gloc(p, rc0))

    rep.rule("G-R7", "an option is left out of the saved section only when the lower-ranking sources already yield the same value: it is compared with the FI-database value if there is one, else with the built-in default (never with the default alone, never with the default shadowing the FI database)")
    # ... and an option that is left out is also TAKEN out: a value saved by an earlier --write would otherwise keep
    # outranking the lower sources, and the next run would not see the value that was in effect when saving
    for lv in loop_views(mk):
        if text(lv.iter) not in ("CONFIGURABLE.items()", "CONFIGURABLE", "CONFIGURABLE.keys()"):
            continue
        tn = lv.target_names
        optv = tn[0] if tn else None

        def _removes(nd):
            for c_ in ast.walk(nd):
                if isinstance(c_, ast.Call) and isinstance(c_.func, ast.Attribute) and c_.func.attr in ("remove_option", "pop") and any(isinstance(a_, ast.Name) and a_.id == optv for a_ in c_.args):
                    return True
                if isinstance(c_, ast.Delete) and any(isinstance(t_, ast.Subscript) and isinstance(t_.slice, ast.Name) and t_.slice.id == optv for t_ in c_.targets):
                    return True
            return False

        stores_ = [it for it, cont, k, v in stores_keyed_by(lv, optv) if isinstance(v, ast.Call) and text(v.func) == "arg2config"]
        removals = [it for it in lv.items if _removes(it.node)]
        if stores_:
            rep.check("G-R7", "mk_server_cfg:skipped-options-are-cleared", bool(removals), "an option whose value equals what the lower sources yield is skipped, but a different value saved for it earlier stays in the user's section: after `--version 203 --write` over a stored `version = 102` the next run uses 102 again - the saved settings are not the ones that were in effect" if not removals else "", gloc(p, stores_[0].node))
    # "unset" is what NULL_ARGS lists - never mere falsiness: the persistable options include booleans (and integers),
    # for which False / 0 is a setting like any other
    bool_opts = sorted(k for k, v in defaults.items() if isinstance(v, bool) and any(k in (_module_const(p, t_) or ()) for t_ in ("configurable_srvr", "configurable_user")))
    if bool_opts:
        valnames = set()
        for lv in loop_views(mk):
            if text(lv.iter) in ("CONFIGURABLE.items()", "CONFIGURABLE", "CONFIGURABLE.keys()"):
                for it in lv.items:
                    for x in ast.walk(it.node):
                        if isinstance(x, ast.Assign) and len(x.targets) == 1 and isinstance(x.targets[0], ast.Name) and isinstance(x.value, ast.Subscript) and text(x.value.value) == "args":
                            valnames.add(x.targets[0].id)
                        if isinstance(x, ast.Call) and isinstance(x.func, ast.Name):
                            inner_ = next((f_ for f_ in ast.walk(mk) if isinstance(f_, ast.FunctionDef) and f_.name == x.func.id and f_ is not mk), None)
                            if inner_ is not None:
                                ps_ = [a_.arg for a_ in inner_.args.args]
                                for i_, a_ in enumerate(x.args):
                                    if isinstance(a_, ast.Name) and a_.id in valnames and i_ < len(ps_):
                                        valnames.add(ps_[i_])
        truthy = None
        for x in ast.walk(mk):
            tests = []
            if isinstance(x, (ast.If, ast.IfExp, ast.While, ast.Assert)):
                tests = [x.test]
            elif isinstance(x, ast.comprehension):
                tests = list(x.ifs)
            for t_ in tests:
                parts = [t_]
                while parts:
                    q_ = parts.pop()
                    if isinstance(q_, ast.BoolOp):
                        parts += q_.values
                    elif isinstance(q_, ast.UnaryOp) and isinstance(q_.op, ast.Not):
                        parts.append(q_.operand)
                    elif isinstance(q_, ast.Call) and isinstance(q_.func, ast.Name) and q_.func.id == "bool" and len(q_.args) == 1:
                        parts.append(q_.args[0])
                    elif isinstance(q_, ast.Name) and q_.id in valnames:
                        truthy = truthy or t_
        rep.check("G-R7", "mk_server_cfg:unset-is-not-falsy", truthy is None, f"the option value is tested for truth (`{text(truthy)[:40] if truthy is not None else ''}`): an explicit False for {bool_opts} (or 0) counts as 'not given', so it is neither saved nor allowed to replace a saved true - the next run does not see the settings that were in effect" if truthy is not None else "", gloc(p, truthy if truthy is not None else mk))
    cmp_ok = None
    detail = ""
    for st in ast.walk(mk):
        if isinstance(st, ast.Compare) and len(st.ops) == 1 and isinstance(st.ops[0], ast.Eq) and text(st.left) == "value":
            r = Expander(mk).x(st.comparators[0]) if False else st.comparators[0]
            t = text(r)
            # resolve a local baseline name
            if isinstance(r, ast.Subscript) and isinstance(r.value, ast.Name):
                for d in local_defs(mk).get(r.value.id, []):
                    if d.kind == "assign":
                        t = text(d.value) + f"[{text(r.slice)}]"
            if "defaults['clientuid']" in t or t == "defaults['clientuid']":
                continue
            # the baseline mapping by ROLE: a local bound to read_config(LIBCFG, ..) (whatever its name), or that call
            libnames = {nm_ for nm_, ds_ in local_defs(mk).items() for d_ in ds_ if d_.kind == "assign" and isinstance(d_.value, ast.Call) and text(d_.value.func) == "read_config" and d_.value.args and text(d_.value.args[0]) == "LIBCFG"}
            t_role = t
            for nm_ in sorted(libnames, key=len, reverse=True):
                t_role = re.sub(rf"\b{re.escape(nm_)}\b", "lib_cfg", t_role)
            t_role = re.sub(r"read_config\(LIBCFG, \w+\)", "lib_cfg", t_role)
            if t_role in ("lib_cfg.get(opt, DEFAULTS[opt])", "ChainMap(lib_cfg, DEFAULTS)[opt]"):
                cmp_ok = True
            elif "DEFAULTS" in t:
                cmp_ok = False
                detail = f"the value is compared with `{t}`: a CLI value equal to the built-in default is dropped from the saved section even when the FI database says otherwise, so the next run without the option takes the FI-database value"
    if cmp_ok is None:
        rep.note("G-R7: no `value == <baseline>` filter recognised in mk_server_cfg")
    else:
        rep.check("G-R7", "mk_server_cfg:skip-filter-baseline", cmp_ok, detail, gloc(p, mk))
    lib = [s for s in own_statements(mk) if isinstance(s, ast.Assign) and text(s.targets[0]) == "lib_cfg"]
    if lib:
        # read_config(LIBCFG, <the nickname>), the nickname being whatever names the user's section in this function
        keys_ = {text(x.slice) for x in ast.walk(mk) if isinstance(x, ast.Subscript) and text(x.value) == "USERCFG" and isinstance(x.slice, ast.Name)}
        ok = all(isinstance(s.value, ast.Call) and text(s.value.func) == "read_config" and len(s.value.args) == 2 and text(s.value.args[0]) == "LIBCFG" and (text(s.value.args[1]) in keys_ or text(s.value.args[1]) == "server") for s in lib)
        rep.check("G-R7", "mk_server_cfg:baseline-from-fi-db", ok, "" if ok else "the FI-database baseline is not read_config(LIBCFG, server)", gloc(p, lib[0]))

    rep.rule("G-R4", "write_config stores nothing on a dry run (no file is opened, the in-memory configuration is not touched); the default CLIENTUID is generated only when the reloaded user file has none, and is stored in the default section")
    wc = _fn(p, "write_config")
    wcfg = CFG(wc)
    opens = wcfg.nodes_calling(lambda c: (dotted(c.func) or "").split(".")[-1] in ("open", "write", "mk_server_cfg", "mkdir"))
    # decided on the enumerated paths (a flag local such as `is_dryrun = args["dryrun"]` is expanded): every path that
    # reaches one of the effects has established that this is not a dry run
    from . import paths as _PTW
    from .match import Expander as _ExW

    wex = _ExW(wc)
    wpl = _PTW.enumerate_paths(wc, None, wex)
    wpc = wpl.cfg
    popens = wpc.nodes_calling(lambda c: (dotted(c.func) or "").split(".")[-1] in ("open", "write", "mk_server_cfg", "mkdir"))
    argsname = params_of(wc)[0]
    not_dry = _PTW.Cond("not", [_PTW.cond_of(ast.parse(f"{argsname}['dryrun']", mode="eval").body, wex.x)])
    bad = []
    reached_when_not_dry = set()
    for n in popens:
        for q in wpl:
            cb = q.conds_before(n.id)
            if cb is None:
                continue
            if _PTW.implies(cb, not_dry) is not True:
                bad.append(n)
            else:
                reached_when_not_dry.add(n.id)
    rep.check("G-R4", "write_config:nothing-on-dryrun", bool(popens) and not bad, "on a dry run write_config still reaches " + ", ".join(sorted({text(c.func) for n in bad for c in n.calls()})) if bad else "", gloc(p, wc))
    wrote = all(n.id in reached_when_not_dry for n in popens)
    rep.check("G-R4", "write_config:writes-otherwise", wrote, "" if wrote else "write_config never writes", gloc(p, wc))
    # the user file is re-read BEFORE it is opened for writing: open(..., "w") truncates it, so a reload that comes
    # after (inside the `with`, or later) reads an empty file and every other section of the file is lost
    readers = {"USERCFG.read"}
    om = p.module(OFXGET)
    for _round in range(3):
        for f_ in [x for x in om.tree.body if isinstance(x, ast.FunctionDef)]:
            if f_.name not in readers and any(isinstance(c, ast.Call) and text(c.func) in readers for c in ast.walk(f_)):
                readers.add(f_.name)
    reload_nodes = wcfg.nodes_calling(lambda c: text(c.func) in readers)
    trunc = wcfg.nodes_calling(lambda c: (dotted(c.func) or "").split(".")[-1] == "open" and any(isinstance(a, ast.Constant) and isinstance(a.value, str) and "w" in a.value for a in list(c.args[1:]) + [k.value for k in c.keywords if k.arg == "mode"]))
    trunc += wcfg.nodes_calling(lambda c: isinstance(c.func, ast.Attribute) and c.func.attr in ("write_text", "write_bytes"))
    if reload_nodes and trunc:
        late = [rn for rn in reload_nodes for t_ in trunc if rn.id != t_.id and rn.id in wcfg.reachable(t_.id)]
        rep.check("G-R4", "write_config:reloads-before-truncating", not late, f"{text(late[0].calls()[0].func) if late and late[0].calls() else 'the reload'} runs after the user file has been opened for writing (mode 'w' truncates it): the reload sees an empty file, so every other server's section, and the stored default CLIENTUID, are gone after --write" if late else "", gloc(p, late[0].stmt) if late else gloc(p, wc))
    else:
        rep.note("G-R4 undecided: reload / truncating open of the user file not both found in write_config")
    # decided on the enumerated paths of the flattened mk_server_cfg (the steps may live in private helpers, be
    # guard clauses or nested ifs): where the default CLIENTUID is stored, `'clientuid' in <section>` is known to
    # be false, the user file has been re-read before, and <section> is USERCFG's default section
    from . import paths as _PTM
    from .match import Expander as _ExM

    mex = _ExM(mk)
    try:
        mpl = _PTM.enumerate_paths(mk, None, mex, resolve=False)
    except AnalysisError as e:
        mpl = None
        rep.note(f"G-R4 undecided: {e}")
    if mpl is not None:
        mpc = mpl.cfg
        gens = [n for n in mpc.nodes if isinstance(n.stmt, ast.Assign) and n.kind not in ("join", "handlers", "test") and len(n.stmt.targets) == 1 and isinstance(n.stmt.targets[0], ast.Subscript) and isinstance(n.stmt.targets[0].slice, ast.Constant) and n.stmt.targets[0].slice.value == "clientuid" and isinstance(n.stmt.targets[0].value, ast.Name)]
        if not gens:
            rep.note("G-R4 undecided: no store of a default CLIENTUID found in mk_server_cfg")
        only_absent = reload_first = in_default = True
        seen = 0
        for g in gens:
            holder = g.stmt.targets[0].value.id
            absent = _PTM.Cond("not", [_PTM.cond_of(ast.parse(f"'clientuid' in {holder}", mode="eval").body)])
            for q in mpl:
                i = q.index_of(g.id)
                if i is None:
                    continue
                seen += 1
                if _PTM.implies(q.conds_before(g.id) or [], absent) is not True:
                    only_absent = False
                reads_before = [j for j in range(i) if mpc.nodes[q.nodes[j]].stmt is not None and mpc.nodes[q.nodes[j]].kind not in ("join", "handlers") and any(text(c.func) == "USERCFG.read" for c in mpc.nodes[q.nodes[j]].calls())]
                # ... and before the membership test itself
                test_pos = [j for j in range(i) if mpc.nodes[q.nodes[j]].kind == "test" and "clientuid" in text(mpc.nodes[q.nodes[j]].stmt.test)]
                if not reads_before or (test_pos and min(reads_before) > min(test_pos)):
                    reload_first = False
                hv = _PTM.value_on_path(q, mpc, ast.Name(id=holder, ctx=ast.Load()), upto=i)
                if text(hv) != "USERCFG[USERCFG.default_section]":
                    in_default = False
        if seen:
            rep.check("G-R4", "mk_server_cfg:clientuid-only-when-absent", only_absent, "a new default CLIENTUID is generated although the user file already has one: the id changes on every --write" if not only_absent else "", gloc(p, mk))
            rep.check("G-R4", "mk_server_cfg:reloads-user-file-first", reload_first, "" if reload_first else "the user file is not reloaded before deciding whether a CLIENTUID exists", gloc(p, mk))
            rep.check("G-R4", "mk_server_cfg:clientuid-in-default-section", in_default, "" if in_default else "the generated CLIENTUID is not kept in the default section", gloc(p, mk))

    rep.rule("G-R5", "writer and reader of the user file agree on '%': arg2config doubles every '%' exactly when the user-file parser interpolates (the default); with interpolation switched off (constructor keyword, or set in the parser class's __init__) nothing may be doubled - a mismatch either way makes a persisted value containing '%' (legal in URLs) raise on --write or come back changed ('%%20')")
    rets = [r for r in own_nodes(a2c) if isinstance(r, ast.Return) and r.value is not None]
    escapes = bool(rets) and all(isinstance(r.value, ast.Call) and isinstance(r.value.func, ast.Attribute) and r.value.func.attr == "replace" and [text(a).replace('"', "'") for a in r.value.args] == ["'%'", "'%%'"] for r in rets)

    def interpolation_off(clsname: str) -> bool:
        for c in ast.walk(m.tree):
            if isinstance(c, ast.Call) and (dotted(c.func) or "") == clsname and any(k.arg == "interpolation" and isinstance(k.value, ast.Constant) and k.value.value is None for k in c.keywords):
                return True
        try:
            ci_ = p.get_class(OFXGET, clsname)
        except Exception:
            return False
        init_ = ci_.own_func("__init__")
        if init_ is None:
            return False
        for x in ast.walk(init_):
            if isinstance(x, ast.Assign) and isinstance(x.targets[0], ast.Subscript) and text(x.targets[0].slice).strip("'\"") == "interpolation" and isinstance(x.value, ast.Constant) and x.value.value is None:
                return True
            if isinstance(x, ast.Call) and isinstance(x.func, ast.Attribute) and x.func.attr in ("setdefault", "update") and any(isinstance(a_, ast.Constant) and a_.value == "interpolation" for a_ in x.args) and any(isinstance(a_, ast.Constant) and a_.value is None for a_ in x.args[1:]):
                return True
            if isinstance(x, ast.Call) and is_super_init(x) and any(k.arg == "interpolation" and isinstance(k.value, ast.Constant) and k.value.value is None for k in x.keywords):
                return True
        return False

    def is_super_init(c):
        return isinstance(c.func, ast.Attribute) and c.func.attr == "__init__" and isinstance(c.func.value, ast.Call) and text(c.func.value.func) == "super"

    user_cls = next((dotted(st.value.func) for st in m.tree.body if isinstance(st, ast.Assign) and text(st.targets[0]) == "USERCFG" and isinstance(st.value, ast.Call)), None)
    if user_cls is None or not rets:
        rep.note("G-R5 undecided: USERCFG / arg2config not recognised")
    else:
        off = interpolation_off(user_cls)
        ok = escapes != off
        why = ""
        if not ok:
            why = ("'%' is doubled on write but the user-file parser no longer interpolates: the doubled form is read back as it is ('%20' becomes '%%20', and doubles again on every --write)" if off
                   else "a value containing '%' (legal in URLs) is handed to an interpolating ConfigParser unescaped: --write raises, or the value is read back differently")
        rep.check("G-R5", "arg2config:percent-escaped", ok, why, gloc(p, a2c))


# --------------------------------------------------------------------------
REQUEST_KIND = {
    "checking": ("StmtRq", "StmtEndRq"), "savings": ("StmtRq", "StmtEndRq"), "moneymrkt": ("StmtRq", "StmtEndRq"), "creditline": ("StmtRq", "StmtEndRq"),
    "creditcard": ("CcStmtRq", "CcStmtEndRq"), "investment": ("InvStmtRq", None),
}


def _enclosing_bindings(site, fn):
    """[(target, iter expr)] of the loops / comprehension generators around `site`, innermost first"""
    out = []
    par = parent(site)
    while par is not None and par is not fn:
        if isinstance(par, (ast.ListComp, ast.GeneratorExp, ast.SetComp, ast.DictComp)):
            for g in reversed(par.generators):
                out.append((g.target, g.iter))
        if isinstance(par, ast.For):
            out.append((par.target, par.iter))
        par = parent(par)
    return out


def _const_iter(it, p: Project):
    """the tuple of strings an iterable denotes (literal, module-level constant, sorted()/tuple() of one), or None"""
    from .fold import fold

    v = fold(it, {}, p, OFXGET)
    if isinstance(v, (tuple, list)) and v and all(isinstance(x, str) for x in v):
        return list(v)
    return None


def _request_ctor_sites(fn, p: Project):
    """(tuple class name, call, list of account-option keys whose ids feed it, name of the loop variable that ranges
    over those keys or None)"""
    out = []
    defs = local_defs(fn)
    for c in own_nodes(fn):
        if isinstance(c, ast.Call) and isinstance(c.func, ast.Name) and c.func.id in ("StmtRq", "CcStmtRq", "InvStmtRq", "StmtEndRq", "CcStmtEndRq"):
            acct = next((k.value for k in c.keywords if k.arg == "acctid"), None)
            keys: List[str] = []
            keyvar = None
            if isinstance(acct, ast.Name):
                binds = _enclosing_bindings(c, fn)
                it = next((i for t, i in binds if isinstance(t, ast.Name) and t.id == acct.id), None)
                keys, keyvar = _arg_keys(it, binds, defs, p)
            out.append((c.func.id, c, keys, keyvar))
    return out


def _arg_keys(it, binds, defs, p: Project, depth=3):
    """option keys denoted by an iterable like args['creditcard'] / args[accttype] / acctids"""
    if it is None or depth <= 0:
        return [], None
    if isinstance(it, ast.Name):
        for d in defs.get(it.id, []):
            if d.kind == "assign":
                return _arg_keys(d.value, binds, defs, p, depth - 1)
        return [], None
    if isinstance(it, ast.Subscript) and isinstance(it.value, ast.Name) and it.value.id == "args":
        if isinstance(it.slice, ast.Constant):
            return [it.slice.value], None
        if isinstance(it.slice, ast.Name):
            for t, i in binds:
                if isinstance(t, ast.Name) and t.id == it.slice.id:
                    # a local bound once to the table of option names stands for the table
                    if isinstance(i, ast.Name) and len(defs.get(i.id, [])) == 1 and defs[i.id][0].kind == "assign" and isinstance(defs[i.id][0].value, ast.AST):
                        i = defs[i.id][0].value
                    ks = _const_iter(i, p)
                    if ks is not None:
                        return ks, t.id
    return [], None


def j_rules(p: Project, rep: Report):
    schema = Schema(p)
    defaults, conf = _configurable(p)
    accttypes = p.resolve("ofxtools.models", "ACCTTYPES")
    if not isinstance(accttypes, (tuple, list)):
        raise AnalysisError("ACCTTYPES not found in ofxtools.models")
    svc = p.resolve("ofxtools.models", "SVCSTATUSES")
    rep.rule("J-R1", "request_stmt / request_stmtend: each account option is iterated exactly once and feeds the request kind that belongs to it (bank types -> StmtRq/StmtEndRq with accttype = the option's own name upper-cased, a valid ACCTTYPE; creditcard -> CcStmt*; investment -> InvStmtRq); date keywords take the like-named key of convert_datetime's result (dtstart=dt['start'], dtend=dt['end'], dtasof=dt['asof']); include flags take the like-named option; every built request is passed on")
    from .fold import fold as _fold
    from .source import UNK as _UNK

    cd0 = _fn(p, "convert_datetime")
    cd = flat(p, OFXGET, cd0)
    cdx = Expander(cd)
    produced: Dict[str, str] = {}  # result key -> the option it is converted from
    own_ok = True
    for lv in loop_views(cd):
        opts = _const_iter(lv.iter, p)
        tn = lv.target_names
        if opts is None or len(tn) != 1:
            continue
        for it, _c, k, v in stores_keyed_by(lv):
            for o in opts:
                key = _fold(cdx.x(k), {tn[0]: o}, p, OFXGET)
                if not isinstance(key, str):
                    continue
                produced[key] = o
            vt = cdx.t(v)
            if f"args[{tn[0]}]" not in vt:
                own_ok = False
    if not produced:
        raise AnalysisError("J-R1: convert_datetime's result keys not recognised")
    rep.check("J-R1", "convert_datetime:values-from-own-option", own_ok, "" if own_ok else "a date is converted from something other than its own option", gloc(p, cd0))
    for fname, idx, want_keys in (("request_stmt", 0, ["checking", "savings", "moneymrkt", "creditline", "creditcard", "investment"]), ("request_stmtend", 1, ["checking", "savings", "moneymrkt", "creditline", "creditcard"])):
        fn0 = _fn(p, fname)
        fn = flat(p, OFXGET, fn0, keep=("_merge_acctinfo", "_request_acctinfo"))
        sites = _request_ctor_sites(fn, p)
        seen: Dict[str, int] = {}
        for cls, c, keys, keyvar in sites:
            for k in keys:
                seen[k] = seen.get(k, 0) + 1
                want = REQUEST_KIND.get(k, (None, None))[idx]
                rep.check("J-R1", f"{fname}:{k}->{cls}", cls == want, f"accounts configured under '{k}' are requested with {cls}; expected {want}" if cls != want else "", gloc(p, c))
            kw = {k.arg: k.value for k in c.keywords if k.arg}
            for name, v in kw.items():
                t = text(v)
                if name.startswith("dt"):
                    fx = Expander(fn)
                    vx = fx.x(v)
                    src_key = vx.slice.value if isinstance(vx, ast.Subscript) and isinstance(vx.slice, ast.Constant) and fx.t(vx.value).startswith("convert_datetime(") else None
                    if src_key is None:
                        rep.note(f"J-R1 undecided: {fname}:{cls}({name}) is given {t}")
                        continue
                    ok = produced.get(src_key) == name
                    rep.check("J-R1", f"{fname}:{cls}({name})", ok, f"{name} is given {t}, which convert_datetime makes from option {produced.get(src_key)!r}; expected the date converted from '{name}' (keys produced: {produced})" if not ok else "", gloc(p, c))
                elif name.startswith("inc"):
                    ok = t == f"args['{name}']"
                    rep.check("J-R1", f"{fname}:{cls}({name})", ok, f"{name} is given {t}; expected args['{name}']" if not ok else "", gloc(p, c))
                elif name == "accttype":
                    # <loopvar>.upper() over the same constant tuple
                    # <loopvar>.upper() where the loop variable is the one that ranges over exactly these option names
                    v = Expander(fn).x(v)  # the upper-cased name may be hoisted into a local (`t = accttype.upper()`)
                    ok = isinstance(v, ast.Call) and isinstance(v.func, ast.Attribute) and v.func.attr == "upper" and all(k.upper() in accttypes for k in keys) and bool(keys) and keyvar is not None and text(v.func.value) == keyvar
                    rep.check("J-R1", f"{fname}:{cls}(accttype)", ok, f"accttype is {t} for options {keys}: not the option's own name upper-cased / not a valid ACCTTYPE {list(accttypes)}" if not ok else "", gloc(p, c))
                elif name == "acctid":
                    ok = isinstance(v, ast.Name) and bool(keys)
                    rep.check("J-R1", f"{fname}:{cls}(acctid)", ok, "acctid does not come from iterating a configured account list" if not ok else "", gloc(p, c))
            # required keywords present
            need = {"StmtRq": {"acctid", "accttype", "dtstart", "dtend", "inctran"}, "CcStmtRq": {"acctid", "dtstart", "dtend", "inctran"},
                    "InvStmtRq": {"acctid", "dtstart", "dtend", "dtasof", "inctran", "incoo", "incpos", "incbal"},
                    "StmtEndRq": {"acctid", "accttype", "dtstart", "dtend"}, "CcStmtEndRq": {"acctid", "dtstart", "dtend"}}[cls]
            missing = sorted(need - set(kw))
            rep.check("J-R1", f"{fname}:{cls}:all-fields-given", not missing, f"{cls} is built without {missing}: the option is ignored for this kind of account" if missing else "", gloc(p, c))
        for k in want_keys:
            rep.check("J-R1", f"{fname}:{k}:iterated-once", seen.get(k, 0) == 1, f"accounts configured under '{k}' are requested {seen.get(k, 0)} times" if seen.get(k, 0) != 1 else "", gloc(p, fn0))
        extra = sorted(set(seen) - set(want_keys))
        rep.check("J-R1", f"{fname}:no-other-options", not extra, f"unexpected account options {extra}" if extra else "", gloc(p, fn))
        # collected with append/extend, passed whole
        containers = []
        unknown_flow = False
        for _cls, c, _k, _kv in sites:
            st = c
            while st is not None and not isinstance(st, ast.stmt):
                st = parent(st)
            cont = None
            if isinstance(st, ast.Expr) and isinstance(st.value, ast.Call) and isinstance(st.value.func, ast.Attribute) and st.value.func.attr in ("append", "extend"):
                cont = text(st.value.func.value)
            elif isinstance(st, ast.AugAssign) and isinstance(st.op, ast.Add):
                cont = text(st.target)
            elif isinstance(st, (ast.Assign, ast.AnnAssign)):
                tgt = st.targets[0] if isinstance(st, ast.Assign) else st.target
                if st.value is c and isinstance(tgt, ast.Name):
                    # a temporary: where is it appended?
                    uses = [x for x in own_nodes(fn) if isinstance(x, ast.Call) and isinstance(x.func, ast.Attribute) and x.func.attr in ("append", "extend") and any(isinstance(y, ast.Name) and y.id == tgt.id for a in x.args for y in ast.walk(a))]
                    if len(uses) == 1:
                        cont = text(uses[0].func.value)
                elif isinstance(st.value, (ast.List, ast.ListComp)) and isinstance(tgt, ast.Name):
                    cont = tgt.id
            if cont is None:
                unknown_flow = True
            else:
                containers.append(cont)
        lists = set(containers)
        rs = [c for c in own_nodes(fn) if isinstance(c, ast.Call) and isinstance(c.func, ast.Attribute) and c.func.attr == "request_statements"]
        if unknown_flow or not rs:
            rep.note(f"J-R1 undecided: {fname}: cannot follow every built request to client.request_statements()")
        else:
            fdefs = local_defs(fn)

            def feeds(name, depth=4, seen=None):
                """names of the lists whose members end up in the list `name` (through [*a, *b], a + b, list(a), += )"""
                seen = seen if seen is not None else set()
                if name in seen or depth <= 0:
                    return set()
                seen.add(name)
                out = {name}
                for d in fdefs.get(name, []):
                    v = d.stmt.value if d.kind == "augassign" else d.value
                    if not isinstance(v, ast.AST):
                        continue
                    for x in ast.walk(v):
                        if isinstance(x, ast.Name) and x.id != name and x.id in fdefs and any(isinstance(dd.value, (ast.List, ast.ListComp, ast.BinOp, ast.Call)) or dd.kind == "augassign" for dd in fdefs[x.id]):
                            out |= feeds(x.id, depth - 1, seen)
                return out

            ok = bool(rs)
            for c in rs:
                starred = [text(a.value) for a in c.args if isinstance(a, ast.Starred)]
                sent = set().union(*[feeds(n_) for n_ in starred]) if starred else set()
                if not (lists <= sent and c.args and text(c.args[0]) == "password"):
                    ok = False
            rep.check("J-R1", f"{fname}:passes-all-built-requests", ok, "" if ok else "the requests built are not all passed to client.request_statements(password, *requests, ...)", gloc(p, fn0))
        # --all: discovered accounts merged before the lists are read
        fcfg = CFG(fn)
        merges = fcfg.nodes_calling(lambda c: text(c.func) == "_merge_acctinfo")
        reads = [n for n in fcfg.nodes if any(isinstance(x, ast.Subscript) and text(x.value) == "args" and (text(x.slice).strip("'\"") in want_keys or isinstance(x.slice, ast.Name)) for e in n.exprs() for x in ast.walk(e))]
        # the client that sends the statement request takes bankid / brokerid from args when it is built
        senders = {text(c.func.value) for c in own_nodes(fn) if isinstance(c, ast.Call) and isinstance(c.func, ast.Attribute) and c.func.attr == "request_statements"}
        reads += [n for n in fcfg.nodes if isinstance(n.stmt, (ast.Assign, ast.AnnAssign)) and n.kind in ("assign", "annassign") and isinstance(n.stmt.value, ast.Call) and text(n.stmt.value.func) == "init_client" and text(n.stmt.targets[0] if isinstance(n.stmt, ast.Assign) else n.stmt.target) in senders]
        # path by path (flag locals such as `want_all = args["all"]` expanded): on every path on which --all is not
        # known to be off, a merge precedes each of those reads
        from . import paths as _PTJ

        jex = Expander(fn)
        try:
            jpl = _PTJ.enumerate_paths(fn, None, jex, max_paths=20000)
        except AnalysisError as e:
            jpl = None
            rep.note(f"J-R1 undecided: {fname}: {e}")
        if jpl is None:
            continue
        jpc = jpl.cfg
        is_read = lambda n: any(isinstance(x, ast.Subscript) and text(x.value) == "args" and (text(x.slice).strip("'\"") in want_keys or isinstance(x.slice, ast.Name)) for e in n.exprs() for x in ast.walk(e)) and not any(isinstance(x, ast.Subscript) and text(x.slice).strip("'\"") in ("all",) for e in n.exprs() for x in ast.walk(e))
        is_client = lambda n: isinstance(n.stmt, (ast.Assign, ast.AnnAssign)) and n.kind in ("assign", "annassign") and isinstance(n.stmt.value, ast.Call) and text(n.stmt.value.func) == "init_client" and text(n.stmt.targets[0] if isinstance(n.stmt, ast.Assign) else n.stmt.target) in senders
        jreads = {n.id for n in jpc.nodes if n.stmt is not None and n.kind not in ("join", "handlers") and (is_read(n) or is_client(n))}
        jmerges = {n.id for n in jpc.nodes if n.stmt is not None and n.kind not in ("join", "handlers") and any(text(c.func) == "_merge_acctinfo" for c in n.calls())}
        all_off = _PTJ.Cond("not", [_PTJ.cond_of(ast.parse("args['all']", mode="eval").body, jex.x)])
        ok = bool(jmerges)
        for q in jpl:
            if _PTJ.implies(q.conds, all_off) is True:
                continue
            mpos = [i for i, nid in enumerate(q.nodes) if nid in jmerges]
            for i, nid in enumerate(q.nodes):
                if nid in jreads and not (mpos and mpos[0] < i):
                    # reads that happen on a path which never merges are fine only if --all is off there
                    ok = False
        rep.check("J-R1", f"{fname}:--all-merges-before-reading-accounts", ok, "" if ok else "with --all the account lists (or the bank / broker id the sending client is built with) are read before the discovered accounts are merged in", gloc(p, fn))

    rep.rule("J-R2", "discovered accounts: every account id taken from the account-information response is collected only under _acctIsActive, which is exactly `svcstatus == 'ACTIVE'` (a member of SVCSTATUSES); the dispatcher's keys are *ACCTINFO classes that ACCTINFO can contain; the grouped records are sorted by the group key first; bank accounts are filed under their own account type")
    from .paths import return_paths

    act0 = _fn(p, "_acctIsActive")
    act = flat(p, OFXGET, act0)
    ap = params_of(act)[0]
    rp, _pl = return_paths(act, None, Expander(act))
    got = sorted({v.replace('"', "'") for _q, v, _c in rp})
    normed = sorted({text(norm(ast.parse(v, mode="eval").body)).replace('"', "'") for v in got})
    ok = normed == [f"{ap}.svcstatus == 'ACTIVE'"] and isinstance(svc, (list, tuple)) and "ACTIVE" in svc
    rep.check("J-R2", "_acctIsActive:svcstatus==ACTIVE", ok, f"_acctIsActive returns {got}: accounts that are not ACTIVE (PEND, AVAIL) are requested with --all" if not ok else "", gloc(p, act0))
    n_collect = 0
    ID_ATTRS = ("acctid", "bankid", "brokerid")
    # the ACTIVE test by any name: module-level one-parameter functions that return exactly `<param>.svcstatus == 'ACTIVE'`
    active_preds = {"_acctIsActive"} if ok else set()
    for st_ in p.module(OFXGET).tree.body:
        if isinstance(st_, ast.FunctionDef) and len(st_.args.args) == 1 and st_.name != "_acctIsActive":
            try:
                f_ = flat(p, OFXGET, st_, keep=("_acctIsActive",))
                rp_, _ = return_paths(f_, None, Expander(f_))
                vals_ = sorted({text(norm(ast.parse(v_, mode="eval").body)).replace('"', "'") for _q, v_, _c in rp_})
            except Exception:
                continue
            a_ = st_.args.args[0].arg
            if vals_ == [f"{a_}.svcstatus == 'ACTIVE'"] or (ok and vals_ == [f"_acctIsActive({a_})"]):
                active_preds.add(st_.name)

    def _is_active_call(t_, rv_):
        return any(t_ == f"{pr_}({rv_})" for pr_ in active_preds)

    for fname in ("parse_bankacctinfos", "parse_invacctinfos", "parse_ccacctinfos"):
        fn0 = _fn(p, fname)
        fn = flat(p, OFXGET, fn0, keep=tuple(active_preds) or ("_acctIsActive",))
        prm = params_of(fn)[0]
        ex = Expander(fn)
        views = list(loop_views(fn))
        # locals bound once to `[r for r in <param> if _acctIsActive(r)]`: the records that passed the filter
        active_lists = set()
        for st in own_statements(fn):
            tgt = st.targets[0] if isinstance(st, ast.Assign) and len(st.targets) == 1 else (st.target if isinstance(st, ast.AnnAssign) else None)
            v = getattr(st, "value", None)
            if isinstance(tgt, ast.Name) and isinstance(v, (ast.ListComp, ast.GeneratorExp)) and len(v.generators) == 1:
                g = v.generators[0]
                if text(g.iter) == prm and isinstance(g.target, ast.Name) and text(v.elt) == g.target.id and len(g.ifs) == 1 and _is_active_call(text(g.ifs[0]), g.target.id):
                    if len(local_defs(fn).get(tgt.id, [])) == 1:
                        active_lists.add(tgt.id)
            if isinstance(tgt, ast.Name) and isinstance(v, ast.Call) and text(v.func) in ("list", "tuple") and len(v.args) == 1 and isinstance(v.args[0], ast.Call) and text(v.args[0].func) == "filter" and len(v.args[0].args) == 2 and text(v.args[0].args[0]) in active_preds and text(v.args[0].args[1]) == prm:
                if len(local_defs(fn).get(tgt.id, [])) == 1:
                    active_lists.add(tgt.id)
        sliced = False
        for lv in views:
            it = text(lv.iter)
            src = "all" if it == prm else ("active" if it in active_lists else None)
            if src is None and isinstance(lv.iter, ast.Call) and text(lv.iter.func) == "filter" and len(lv.iter.args) == 2 and text(lv.iter.args[0]) in active_preds and text(lv.iter.args[1]) == prm:
                src = "active"  # for x in filter(<ACTIVE test>, <records>)
            if isinstance(lv.iter, ast.Subscript) and text(lv.iter.value) == prm:
                sliced = True
            tn = lv.target_names
            if src is None or len(tn) != 1:
                continue
            rv = tn[0]
            for item in lv.items:
                node = item.node
                # the comprehension that only builds an active list is not a collection site
                if isinstance(node, ast.expr) and text(node) == rv:
                    continue
                exprs = []
                if isinstance(node, ast.expr):
                    exprs.append(node)
                else:
                    for c in ast.walk(node):
                        if isinstance(c, ast.Call) and isinstance(c.func, ast.Attribute) and c.func.attr in ("append", "extend", "add", "insert") and c.args:
                            exprs.append(c.args[-1])
                        if isinstance(c, ast.Assign) and isinstance(c.targets[0], ast.Subscript):
                            exprs.append(c.value)
                for e in exprs:
                    et = ex.t(e)
                    hit = [a for a in ID_ATTRS if et.endswith(f".{a}") or f".{a}" in et]
                    if not hit or not (et.startswith(f"{rv}.") or f"{rv}." in et):
                        continue
                    n_collect += 1
                    label = f"{fname}:{hit[0]}:only-if-active"
                    if src == "active":
                        rep.check("J-R2", label, True, "", gloc(p, e))
                    elif any((f"bool({pr_}({rv}))", True) in item.filters for pr_ in active_preds):
                        # ... and under nothing MORE than that: another test of the record (SUPTXDL, XFERSRC ...) leaves
                        # ACTIVE accounts out - the property asks for exactly the ACTIVE ones
                        extra = [f_ for f_ in item.filters if not any(f_ == (f"bool({pr_}({rv}))", True) for pr_ in active_preds) and re.search(rf"\b{re.escape(rv)}\b", f_[0])]
                        rep.check("J-R2", label, not extra, f"{et} is collected only if, besides being ACTIVE, `{extra[0][0][:50]}` is {extra[0][1]}: an ACTIVE account that fails this further test is left out of `--all` (statements AND closing statements)" if extra else "", gloc(p, e))
                    elif item.complex:
                        rep.note(f"J-R2 undecided: {fname} collects {et} under a condition that is not a plain conjunction")
                    else:
                        rep.check("J-R2", label, False, f"{et} is collected without the ACTIVE filter: inactive accounts are requested with --all", gloc(p, e))
        rep.check("J-R2", f"{fname}:iterates-all-records", not sliced, "" if not sliced else "not every record of the response is looked at", gloc(p, fn0))
    rep.floor("J-R2", n_collect, 5, "account collection sites")
    # keys under which accounts are filed
    pb0 = _fn(p, "parse_bankacctinfos")
    pb = flat(p, OFXGET, pb0, keep=("_acctIsActive",))
    pbx = Expander(pb)
    recvars = {n_ for lv in loop_views(pb) for n_ in lv.target_names}
    keyed = [pbx.t(x.slice) for x in ast.walk(pb) if isinstance(x, ast.Subscript) and "accttype" in pbx.t(x.slice)]
    keyed += [pbx.t(k) for d in ast.walk(pb) if isinstance(d, ast.DictComp) for k in [d.key] if "accttype" in pbx.t(k)]
    ok = bool(keyed) and all(any(k == f"{rv}.accttype.lower()" for rv in recvars) for k in keyed)
    if not keyed:
        rep.note("J-R2 undecided: parse_bankacctinfos files accounts under a key not recognisably derived from the account type")
    else:
        rep.check("J-R2", "parse_bankacctinfos:filed-under-own-type", ok, "" if ok else f"bank accounts are filed under {sorted(set(keyed))}, not under their own account type (lower-cased)", gloc(p, pb0))
    for fname, key in (("parse_invacctinfos", "investment"), ("parse_ccacctinfos", "creditcard")):
        fn = _fn(p, fname)
        ok = any(isinstance(x, ast.Constant) and x.value == key for x in ast.walk(fn))
        rep.check("J-R2", f"{fname}:filed-under-{key}", ok, "" if ok else f"accounts are not filed under '{key}'", gloc(p, fn))
    ma = _fn(p, "_merge_acctinfo")
    disp = [d for d in ast.walk(ma) if isinstance(d, ast.Dict) and d.keys and all(isinstance(k, ast.Constant) for k in d.keys)]
    acctinfo = schema.exported().get("ACCTINFO")
    members = {c.target.name for c in schema.spec(acctinfo).values() if c.kind == "ListAggregate"} if acctinfo else set()
    for d in disp:
        for k, v in zip(d.keys, d.values):
            ok = k.value in members
            rep.check("J-R2", f"_merge_acctinfo:dispatcher[{k.value}]", ok, f"'{k.value}' is not a class ACCTINFO can contain ({sorted(members)})" if not ok else "", gloc(p, k))
            want = {"BANKACCTINFO": "parse_bankacctinfos", "CCACCTINFO": "parse_ccacctinfos", "INVACCTINFO": "parse_invacctinfos"}.get(k.value)
            if want:
                rep.check("J-R2", f"_merge_acctinfo:dispatcher[{k.value}]:parser", text(v) == want, f"{k.value} records are parsed by {text(v)}" if text(v) != want else "", gloc(p, k))
        have = {k.value for k in d.keys}
        miss = sorted({"BANKACCTINFO", "CCACCTINFO", "INVACCTINFO"} - have)
        rep.check("J-R2", "_merge_acctinfo:dispatcher-covers-statement-accounts", not miss, f"no parser for {miss}: such accounts are never discovered" if miss else "", gloc(p, d))
    n = groupby_inputs_sorted(p, OFXGET, ma, rep, "J-R2", "_merge_acctinfo")
    if n == 0:
        rep.note("J-R2 undecided: _merge_acctinfo groups the records without itertools.groupby")
    ok = any(isinstance(c, ast.Call) and text(c.func) == "extract_acctinfos" for c in own_nodes(ma))
    rep.check("J-R2", "_merge_acctinfo:all-records-extracted", ok, "" if ok else "records do not come from extract_acctinfos(markup)", gloc(p, ma))
    ea = _fn(p, "extract_acctinfos")
    eaf = flat(p, OFXGET, ea)
    eax = Expander(eaf)
    rets = [eax.x(r.value) for r in own_nodes(eaf) if isinstance(r, ast.Return) and r.value is not None]
    good = bool(rets) and all(isinstance(v, ast.Call) and text(v.func).endswith("chain.from_iterable") and len(v.args) == 1 and text(v.args[0]).endswith(".acctinfors") for v in rets)
    partial = any(isinstance(x, (ast.Subscript, ast.Slice)) and text(getattr(x, "value", x)).endswith("acctinfors") for v in rets for x in ast.walk(v)) or any(text(v).endswith(".acctinfors") for v in rets)
    if good:
        rep.check("J-R2", "extract_acctinfos:flattens-all", True, "", gloc(p, ea))
    elif partial or not rets:
        rep.check("J-R2", "extract_acctinfos:flattens-all", False, "extract_acctinfos does not return every *ACCTINFO of every ACCTINFO", gloc(p, ea))
    else:
        rep.note("J-R2 undecided: extract_acctinfos returns " + "; ".join(text(v)[:80] for v in rets))
    # init_client: each OFXClient parameter from the like-named option
    ic0 = _fn(p, "init_client")
    ic = flat(p, OFXGET, ic0)
    idefs = local_defs(ic)

    def option_keys(e, depth=6, seen=None):
        """(constant keys K of every args['K'] the value may derive from, texts of the defining expressions)"""
        seen = seen if seen is not None else set()
        keys, texts = set(), {text(e)}
        for x in ast.walk(e):
            if isinstance(x, ast.Subscript) and text(x.value) == "args" and isinstance(x.slice, ast.Constant):
                keys.add(x.slice.value)
            if isinstance(x, ast.Name) and x.id in idefs and x.id not in seen and depth > 0:
                seen.add(x.id)
                for d in idefs[x.id]:
                    if isinstance(d.value, ast.AST):
                        k2, t2 = option_keys(d.value, depth - 1, seen)
                        keys |= k2
                        texts |= t2
        return keys, texts

    alias = {"userid": "user", "prettyprint": "pretty", "close_elements": "unclosedelements"}
    pnames = ["url"]
    for c in own_nodes(ic):
        if isinstance(c, ast.Call) and text(c.func) == "OFXClient":
            given = [(pnames[i], a) for i, a in enumerate(c.args) if i < len(pnames)] + [(k.arg, k.value) for k in c.keywords if k.arg]
            if not any(n_ == "url" for n_, _ in given):
                rep.check("J-R1", "init_client:url", False, "the client is not given args['url']", gloc(p, c))
            for name, v in given:
                want = alias.get(name, name)
                keys, texts = option_keys(v)
                ok = keys == {want}
                why = f"OFXClient({name}=) is given {text(v)}, which derives from options {sorted(keys)}; expected the '{want}' option"
                if ok and name == "close_elements":
                    negs = [t for t in texts if t.replace('"', "'").startswith("not ") and "unclosedelements" in t]
                    if not negs:
                        ok, why = False, "close_elements is not the negation of the 'unclosedelements' option"
                if ok and name == "prettyprint" and any(t.startswith("not ") for t in texts):
                    ok, why = False, "prettyprint is the negation of the 'pretty' option"
                rep.check("J-R1", f"init_client:{name}", ok, why if not ok else "", gloc(p, c))


def g_r8_flags_reach_client(p: Project, rep: Report):
    """a boolean option reaches the client with both of its values"""
    rep.rule("G-R8", "a boolean setting in effect is the one the client is built with: in init_client no boolean-valued argument of OFXClient(...) is passed as `<flag> or None` when the client's own default for that parameter is true - None means 'keep the default', so the false value can never be delivered (close_elements = not unclosedelements: with unclosedelements set, from any source, the client would still close its elements)")
    ic0 = _fn(p, "init_client")
    ic = flat(p, OFXGET, ic0)
    ex = Expander(ic)
    defaults, _conf = _configurable(p)
    cc = p.get_class("ofxtools.Client", "OFXClient")
    n = 0
    for c in own_nodes(ic):
        if not (isinstance(c, ast.Call) and text(c.func) == "OFXClient"):
            continue
        for k in c.keywords:
            if k.arg is None:
                continue
            v = ex.x(k.value)
            if not (isinstance(v, ast.BoolOp) and isinstance(v.op, ast.Or) and isinstance(v.values[-1], ast.Constant) and v.values[-1].value is None):
                continue
            flag = v.values[0]
            keys = [x.slice.value for x in ast.walk(flag) if isinstance(x, ast.Subscript) and text(x.value) == "args" and isinstance(x.slice, ast.Constant)]
            boolean = (isinstance(flag, ast.UnaryOp) and isinstance(flag.op, ast.Not)) or (len(keys) == 1 and isinstance(defaults.get(keys[0]), bool))
            if not boolean:
                continue
            n += 1
            d = cc.lookup(k.arg)
            if isinstance(d, bool) or d is None:
                ok = not d
                rep.check("G-R8", f"init_client:{k.arg}:false-deliverable", ok, f"OFXClient({k.arg}={text(v)}): when the flag is false the client is given None and keeps its own default {k.arg}={d!r}, so the setting in effect ({', '.join(keys)}) never reaches the request" if not ok else "", gloc(p, c))
            else:
                rep.note(f"G-R8 undecided: default of OFXClient.{k.arg} not a constant")
    rep.unit("client_flags_passed_or_none", n)


def g_r9_same_section(p: Project, rep: Report):
    """what --write saves under a nickname is what a later run reads under that nickname"""
    import re as _re

    rep.rule("G-R9", "the user's section is read under the key it is written under: merge_config() reads the section named by the `server` option as given, and mk_server_cfg() writes to the section named by the same option as given - if either side transforms the name (case-folding, a lookup that prefers another section) and the other does not, the settings saved with --write are not the ones the next run reads, and a like-named FI-database section outranks the user's own")
    mc = flat(p, OFXGET, _fn(p, "merge_config"), keep=("read_config",))
    mk = flat(p, OFXGET, _fn(p, "mk_server_cfg"))
    mcx, mkx = Expander(mc), Expander(mk)

    def norm_(t: str) -> str:
        t = _re.sub(r"\b_?args\b", "A", t)
        t = t.replace('"', "'")
        # wrappers that only select entries of the mapping (the name itself is passed through unchanged)
        for _ in range(3):
            t = _re.sub(r"\b(extractns|extrargs|vars|dict|ChainMap)\(A\)", "A", t)
        t = _re.sub(r"A\.get\('server'(, None)?\)", "A['server']", t)
        return t

    reads = [c for c in ast.walk(mc) if isinstance(c, ast.Call) and text(c.func) == "read_config" and len(c.args) == 2 and "server" in mcx.t(c.args[1])]
    writes = [s.value for s in ast.walk(mk) if isinstance(s, ast.Subscript) and text(s.value) == "USERCFG" and "server" in mkx.t(s.slice)]
    wkeys = {norm_(mkx.t(s.slice)) for s in ast.walk(mk) if isinstance(s, ast.Subscript) and text(s.value) == "USERCFG" and "server" in mkx.t(s.slice)}
    rkeys = {norm_(mcx.t(c.args[1])) for c in reads}
    if not rkeys or not wkeys or not all("A['server']" in k for k in rkeys | wkeys):
        # a key that is not spelled in terms of the option mapping (a local filled in by an inlined helper) is not compared
        rep.note("G-R9 undecided: the section read by merge_config / written by mk_server_cfg was not recognised")
        return
    ok = rkeys == wkeys
    rep.check("G-R9", "merge_config/mk_server_cfg:same-section", ok, f"merge_config reads section {sorted(rkeys)} while mk_server_cfg writes section {sorted(wkeys)}: a nickname for which the two differ (another section whose name matches after the transformation, e.g. [Power] of the FI database for `power`) is saved in one place and read from another" if not ok else "", gloc(p, reads[0]))


def g_r10_only_the_parser_writes(p: Project, rep: Report):
    """what reaches the user's file is what the configuration parser holds - where the password never is"""
    rep.rule("G-R10", "the password is never stored: the only thing write_config() writes into the user's file is USERCFG.write(<file>), whose sections are filled by mk_server_cfg() from the CONFIGURABLE options (which exclude the password, G-R3).  Any other write to that file that derives from the option mapping (a header comment listing the command line, a dump of args) can carry --password")
    wc0 = _fn(p, "write_config")
    wc = flat(p, OFXGET, wc0)
    argsname = params_of(wc0)[0]
    files = set()
    for w_ in [x for x in ast.walk(wc) if isinstance(x, ast.With)]:
        for it in w_.items:
            ce = it.context_expr
            if isinstance(ce, ast.Call) and (dotted(ce.func) or "").split(".")[-1] == "open" and isinstance(it.optional_vars, ast.Name):
                files.add(it.optional_vars.id)
    if not files:
        rep.note("G-R10 undecided: write_config() opens no file in a with-statement")
        return
    ex = Expander(wc)
    bad = None
    n = 0
    for c in [x for x in ast.walk(wc) if isinstance(x, ast.Call)]:
        into_file = None
        if isinstance(c.func, ast.Attribute) and c.func.attr in ("write", "writelines") and isinstance(c.func.value, ast.Name) and c.func.value.id in files:
            into_file = c.args
        elif isinstance(c.func, ast.Name) and c.func.id == "print" and any(k.arg == "file" and isinstance(k.value, ast.Name) and k.value.id in files for k in c.keywords):
            into_file = c.args
        elif isinstance(c.func, ast.Attribute) and c.func.attr in ("dump", "write") and any(isinstance(a, ast.Name) and a.id in files for a in c.args):
            # <something>.write(f) / json.dump(obj, f): fine for USERCFG, anything else is looked at
            if text(c.func.value) == "USERCFG":
                n += 1
                continue
            into_file = [a for a in c.args if not (isinstance(a, ast.Name) and a.id in files)] + [c.func.value]
        if into_file is None:
            continue
        n += 1
        for a in into_file:
            names = {x.id for x in ast.walk(ex.x(a)) if isinstance(x, ast.Name)}
            if argsname in names:
                bad = (c, text(a))
    rep.check("G-R10", "write_config:only-USERCFG-reaches-the-file", bad is None, f"write_config() also writes {bad[1][:60]} into the user's file, computed from the option mapping `{argsname}` without going through the CONFIGURABLE filter: --password given on the command line ends up on disk" if bad else "", gloc(p, bad[0] if bad else wc0))
    rep.unit("writes_into_user_file", n)


def j_r9_dates_given_to_the_converter_as_typed(p: Project, rep: Report):
    """the date options reach the DateTime converter as the user typed them"""
    rep.rule("J-R9", "the dates given on the command line reach the DateTime converter as typed: in convert_datetime the argument of the converter is args[<date option>] (or that `or None`) - no text edit (.replace / .strip / .translate / slicing / re.sub) in between: in the OFX notation '-' is also the sign of a GMT offset and '.' the decimal point of its minutes, so a clean-up that looks harmless for YYYY-mm-dd changes the instant of 20200301090000[-5:EST]")
    fn0 = _fn(p, "convert_datetime")
    fn = flat(p, OFXGET, fn0)
    convs = set()
    for st in ast.walk(fn):
        if isinstance(st, ast.Assign) and len(st.targets) == 1 and isinstance(st.targets[0], ast.Name) and isinstance(st.value, ast.Attribute) and st.value.attr == "convert":
            convs.add(st.targets[0].id)
    calls = [c for c in ast.walk(fn) if isinstance(c, ast.Call) and ((isinstance(c.func, ast.Name) and c.func.id in convs) or (isinstance(c.func, ast.Attribute) and c.func.attr == "convert")) and c.args]
    if not calls:
        rep.note("J-R9 undecided: convert_datetime does not call a converter")
        return
    # nested helpers defined inside are part of the function
    nested = {f.name: f for f in ast.walk(fn0) if isinstance(f, ast.FunctionDef) and f is not fn0}
    EDITS = ("replace", "strip", "lstrip", "rstrip", "translate", "split", "partition", "rpartition", "upper", "lower", "removeprefix", "removesuffix", "sub", "subn", "zfill", "ljust", "rjust", "expandtabs", "join")
    bad = None
    for c in calls:
        bodies = [c.args[0]]
        for x in ast.walk(c.args[0]):
            if isinstance(x, ast.Call) and isinstance(x.func, ast.Name) and x.func.id in nested:
                bodies.append(nested[x.func.id])
            elif isinstance(x, ast.Call) and isinstance(x.func, ast.Name) and x.func.id not in ("str",):
                r = p.resolve(OFXGET, x.func.id)
                if getattr(r, "node", None) is not None and isinstance(r.node, ast.FunctionDef):
                    bodies.append(r.node)
        for b in bodies:
            for x in ast.walk(b):
                if isinstance(x, ast.Call) and isinstance(x.func, ast.Attribute) and x.func.attr in EDITS:
                    bad = bad or x
                elif isinstance(x, ast.Subscript) and isinstance(x.slice, ast.Slice) and b is c.args[0]:
                    bad = bad or x
    rep.check("J-R9", "convert_datetime:dates-as-typed", bad is None, f"{text(bad)[:50] if bad is not None else ''} edits the text of --start / --end / --asof before the converter sees it: a '-' (or '.') that belongs to the GMT offset is rewritten too, so 20200301090000.000[-5:EST] is requested as [5:EST], ten hours off" if bad is not None else "", gloc(p, bad if bad is not None else fn0))


def g_r11_unreachable_ofxhome_sets_nothing(p: Project, rep: Report):
    """an OFX Home that cannot be reached is a layer that sets nothing, not an error"""
    from .source import parent as _parent

    rep.rule("G-R11", "an unreachable OFX Home is an empty layer: in ofxhome.fetch_fi_xml (private helpers inlined) every call that opens the connection (urlopen) lies inside the try whose handler turns URLError into `return None` - outside it, a connection failure propagates out of merge_config and the values the command line, the user's file and the FI database did supply are lost with it")
    modname = "ofxtools.ofxhome"
    if modname not in p.modules:
        rep.note("G-R11 undecided: ofxtools.ofxhome not found")
        return
    fn0 = p.get_function(modname, "fetch_fi_xml").node
    fn = flat(p, modname, fn0)
    opens = [c for c in ast.walk(fn) if isinstance(c, ast.Call) and (dotted(c.func) or text(c.func)).split(".")[-1] == "urlopen"]
    if not opens:
        rep.note("G-R11 undecided: fetch_fi_xml opens no connection with urlopen")
        return
    handled_somewhere = any(isinstance(t, ast.Try) and any(h.type is not None and any(k in text(h.type) for k in ("URLError", "OSError", "Exception")) for h in t.handlers) for t in ast.walk(fn))
    if not handled_somewhere:
        rep.check("G-R11", "fetch_fi_xml:connection-failure-handled", False, "fetch_fi_xml has no handler for URLError: an unreachable OFX Home raises out of the option merge", gloc(p, fn0) if False else f"{p.module(modname).relpath}:{fn0.lineno}")
        return
    for i, c in enumerate(opens):
        covered = False
        node = c
        while node is not None and node is not fn:
            par = _parent(node)
            if isinstance(par, ast.Try) and any(node is s or any(x is node for x in ast.walk(s)) for s in par.body):
                if any(h.type is None or any(k in text(h.type) for k in ("URLError", "OSError", "Exception")) for h in par.handlers):
                    covered = True
            node = par
        rep.check("G-R11", f"fetch_fi_xml:urlopen#{i}:inside-the-handling-try", covered, f"{text(c)[:50]} is evaluated outside the try that handles URLError: when OFX Home cannot be reached the lookup raises instead of setting nothing, and the settings the higher sources supplied are lost with the run" if not covered else "", f"{p.module(modname).relpath}:{c.lineno}")


def g_r12_fid_repair_keeps_the_element(p: Project, rep: Report):
    """the repair of OFX Home's unescaped <fid> escapes the CONTENT, not the tags"""
    rep.rule("G-R12", "OFX Home does not escape '&' in <fid>; the repair pass (FID_REGEX.sub(<callback>, ..)) escapes the captured CONTENT group and puts it back between literal <fid> tags - escaping the whole match (group() / group(0)) would escape the tags as well: the document still parses, the <fid> element is gone, and the lookup yields FID None, so the OFX Home layer no longer supplies it")
    modname = "ofxtools.ofxhome"
    if modname not in p.modules:
        rep.note("G-R12 undecided: ofxtools.ofxhome not found")
        return
    m = p.module(modname)
    cbs = set()
    for c in ast.walk(m.tree):
        if isinstance(c, ast.Call) and isinstance(c.func, ast.Attribute) and c.func.attr in ("sub", "subn") and "FID" in text(c.func.value).upper() and c.args and isinstance(c.args[0], ast.Name):
            cbs.add(c.args[0].id)
    if not cbs:
        rep.note("G-R12 undecided: no FID repair substitution found in ofxhome")
        return
    for nm in sorted(cbs):
        try:
            fn = p.get_function(modname, nm).node
        except AnalysisError:
            continue
        mp = fn.args.args[0].arg if fn.args.args else None
        whole = None
        content = False
        for c in ast.walk(fn):
            if isinstance(c, ast.Call) and (dotted(c.func) or text(c.func)).split(".")[-1] == "escape" and c.args:
                a = Expander(fn).x(c.args[0])  # `raw = match.group(1); escape(raw)`
                if isinstance(a, ast.Call) and isinstance(a.func, ast.Attribute) and a.func.attr == "group" and isinstance(a.func.value, ast.Name) and a.func.value.id == mp:
                    if not a.args or (isinstance(a.args[0], ast.Constant) and a.args[0].value == 0):
                        whole = c
                    else:
                        content = True
                elif isinstance(a, ast.Subscript) and isinstance(a.value, ast.Name) and a.value.id == mp:
                    if isinstance(a.slice, ast.Constant) and a.slice.value == 0:
                        whole = c
                    else:
                        content = True
        tags = any(isinstance(x, ast.Constant) and isinstance(x.value, str) and "<fid>" in x.value.lower() for x in ast.walk(fn))
        ok = whole is None and content and tags
        rep.check("G-R12", f"{nm}:escapes-content-between-literal-tags", ok, (f"{text(whole)[:50]} escapes the whole match, tags included" if whole is not None else ("the callback does not escape the captured content group" if not content else "the callback does not put the content back between literal <fid> tags")) + ": the repaired record has no <fid> element and the lookup returns FID None" if not ok else "", f"{m.relpath}:{fn.lineno}")


_ITER_MAKERS = ("chain", "from_iterable", "map", "filter", "zip", "iter", "groupby", "islice", "takewhile", "dropwhile", "starmap", "finditer", "iterfind", "iterdir", "glob", "reversed", "enumerate")
_CONSUMERS = ("list", "sorted", "tuple", "set", "frozenset", "dict", "sum", "max", "min", "any", "all", "len", "next", "join", "extend", "update", "Counter", "deque")


def _returns_iterator(p: Project, modname: str, fname: str) -> bool:
    try:
        fn = p.get_function(modname, fname).node
    except AnalysisError:
        return False
    if any(isinstance(x, (ast.Yield, ast.YieldFrom)) for x in ast.walk(fn)):
        return True
    ann = text(fn.returns) if fn.returns is not None else ""
    if ann.startswith(("Iterator", "Iterable[", "Generator", "typing.Iterator")) and not ann.startswith(("List", "Sequence")):
        rets = [r.value for r in ast.walk(fn) if isinstance(r, ast.Return) and r.value is not None]
        if rets and all(isinstance(v, ast.GeneratorExp) or (isinstance(v, ast.Call) and (dotted(v.func) or text(v.func)).split(".")[-1] in _ITER_MAKERS) for v in rets):
            return True
    return False


def j_r10_one_shot_iterators_consumed_once(p: Project, rep: Report):
    """what a one-shot iterator yields is looked at once"""
    from .source import parent as _parent

    rep.rule("J-R10", "the accounts the server lists are consumed once: in the functions that merge / request accounts, a local bound to a ONE-SHOT iterator (the result of a generator function such as extract_acctinfos, of itertools.chain / map / filter, or a generator expression) is consumed (list / sorted / for / join ...) at most once on any path - a second consumer (e.g. one added for a debug log) sees nothing, so no discovered account reaches the request")
    n = 0
    for fname in ("_merge_acctinfo", "request_stmt", "request_stmtend", "request_acctinfo", "_request_acctinfo"):
        try:
            fn = _fn(p, fname)
        except AnalysisError:
            continue
        for x in ast.walk(fn):
            for ch in ast.iter_child_nodes(x):
                ch._parent = x
        for st in ast.walk(fn):
            if not (isinstance(st, ast.Assign) and len(st.targets) == 1 and isinstance(st.targets[0], ast.Name)):
                continue
            v = st.value
            one_shot = isinstance(v, ast.GeneratorExp)
            if isinstance(v, ast.Call):
                last = (dotted(v.func) or text(v.func)).split(".")[-1]
                one_shot = last in _ITER_MAKERS or (isinstance(v.func, ast.Name) and _returns_iterator(p, OFXGET, v.func.id))
            if not one_shot:
                continue
            name = st.targets[0].id
            if sum(1 for y in ast.walk(fn) if isinstance(y, ast.Name) and isinstance(y.ctx, ast.Store) and y.id == name) != 1:
                continue
            n += 1
            uses = []
            for y in ast.walk(fn):
                if isinstance(y, ast.Name) and isinstance(y.ctx, ast.Load) and y.id == name and y.lineno >= st.lineno:
                    par = _parent(y)
                    consumed = (isinstance(par, ast.Call) and y in par.args and (dotted(par.func) or text(par.func)).split(".")[-1] in _CONSUMERS) or (isinstance(par, (ast.For, ast.comprehension)) and par.iter is y) or isinstance(par, ast.Starred)
                    if consumed:
                        uses.append(y)

            def arms(node):
                """[(if statement, arm name)] enclosing the node"""
                out, cur = [], node
                while cur is not None and cur is not fn:
                    par = _parent(cur)
                    if isinstance(par, ast.If):
                        out.append((par, "body" if any(cur is s_ or any(z is cur for z in ast.walk(s_)) for s_ in par.body) else "orelse"))
                    cur = par
                return out

            clash = None
            for i_ in range(len(uses)):
                for j_ in range(i_ + 1, len(uses)):
                    a_, b_ = dict((id(k), v_) for k, v_ in arms(uses[i_])), dict((id(k), v_) for k, v_ in arms(uses[j_]))
                    exclusive = any(k in b_ and b_[k] != v_ for k, v_ in a_.items())
                    if not exclusive:
                        clash = clash or (uses[i_], uses[j_])
            rep.check("J-R10", f"{fname}:{name}:consumed-once", clash is None, f"`{name}` is a one-shot iterator ({text(v)[:40]}) and is consumed at line {clash[0].lineno} and again at line {clash[1].lineno}: the second consumer finds it empty - with the first one behind `if logger.isEnabledFor(DEBUG)`, running with -vv silently requests none of the discovered accounts" if clash else "", gloc(p, st))
    if n == 0:
        rep.check("J-R10", "ofxget:no-iterator-bound-to-a-local", True, "nothing to consume twice", "")


def _always_keys(comp, ex: Expander, p: Project, params):
    """constant keys a mapping expression defines whatever the response holds: (keys or None when not decidable)"""
    from .fold import fold
    from .source import UNK

    v = ex.x(comp) if not isinstance(comp, (ast.Dict, ast.DictComp)) else comp
    if isinstance(v, ast.Dict):
        if all(isinstance(k, ast.Constant) for k in v.keys):
            return {k.value for k in v.keys}
        return None
    if isinstance(v, ast.Call) and text(v.func) in ("dict.fromkeys",) and v.args:
        it = fold(ex.x(v.args[0]), {}, p, OFXGET)
        return set(it) if isinstance(it, (tuple, list)) else None
    if isinstance(v, ast.DictComp) and len(v.generators) == 1 and isinstance(v.generators[0].target, ast.Name):
        g = v.generators[0]
        t = g.target.id
        if text(v.key) != t:
            return None
        it = fold(ex.x(g.iter), {}, p, OFXGET)
        if not isinstance(it, (tuple, list)):
            return None
        for f in g.ifs:
            # masking exactly what the chain already supplies / what the response did not supply leaves no hole
            okf = isinstance(f, ast.Compare) and len(f.ops) == 1 and text(f.left) == t and ((isinstance(f.ops[0], ast.In) and text(f.comparators[0]).split(".")[0] in params) or isinstance(f.ops[0], ast.NotIn))
            if not okf:
                return None
        return set(it)
    return None


def j_r11_unlisted_types_masked(p: Project, rep: Report):
    rep.rule("J-R11", "with --all the accounts requested are the ones the response lists as ACTIVE, for EVERY account type: the layer _merge_acctinfo inserts ahead of the config files defines each account-type option (the list-valued DEFAULTS the request builders iterate) whatever the response holds - the per-class parsers only define a type that has an ACTIVE account (and none runs for a class the response does not list), so a layer built from their results alone lets an account saved in ofxget.cfg through although the server reports it PEND / AVAIL or no longer lists it")
    defaults, _conf = _configurable(p)
    # the account options: list-valued and saved per user (configurable_user)
    types_ = sorted(k for k, v in defaults.items() if isinstance(v, (list, tuple)) and k in _conf)
    ma0 = _fn(p, "_merge_acctinfo")
    ma = flat(p, OFXGET, ma0)
    ex = Expander(ma)
    params = set(params_of(ma))
    ins = [c for c in ast.walk(ma) if isinstance(c, ast.Call) and isinstance(c.func, ast.Attribute) and c.func.attr == "insert" and text(c.func.value).endswith(".maps") and len(c.args) == 2]
    if not ins or len(types_) < 6:
        rep.note("J-R11 undecided: _merge_acctinfo no longer inserts into the chain's maps / DEFAULTS lists fewer than six account types")
        return
    for c in ins:
        layer = ex.x(c.args[1])
        comps = list(layer.args) if isinstance(layer, ast.Call) and text(layer.func).split(".")[-1] == "ChainMap" else [layer]
        have, unknown, shadowing = set(), [], []
        for i_, a in enumerate(comps):
            if isinstance(a, ast.Starred):
                continue  # the parsers' results: keys depend on the response
            ks = _always_keys(a, ex, p, params)
            if ks and set(ks) & set(types_) and any(isinstance(b, ast.Starred) for b in comps[i_ + 1:]):
                shadowing.append(text(a)[:40])
            if ks is None:
                unknown.append(text(a)[:50])
            else:
                have |= ks
        missing = [t for t in types_ if t not in have]
        if missing and unknown:
            rep.note(f"J-R11 undecided: keys of {unknown} not decided")
            continue
        rep.check("J-R11", "_merge_acctinfo:mask-ranks-after-the-listed-accounts", not shadowing, f"{shadowing} precedes the parsed accounts in the inserted layer: its empty lists shadow every account the response lists, so --all requests nothing" if shadowing else "", gloc(p, c))
        rep.check("J-R11", "_merge_acctinfo:unlisted-types-masked", not missing, f"the inserted layer {text(layer)[:70]} defines {missing} only when the response has an ACTIVE account of that type: `ofxget stmt --all` still requests an account of such a type saved in the config file although the server lists it as PEND / AVAIL or not at all" if missing else "", gloc(p, c))


def g_r13_nickname_looked_up_as_given(p: Project, rep: Report):
    """the positional argument is a nickname first"""
    rep.rule("G-R13", "the server name given on the command line is looked up in the configuration AS GIVEN: in merge_config the user's section is read with read_config(<config>, <CLI layer>['server']) before anything re-interprets that name - the `sloppy` reading of the positional as a URL is a last resort taken only after no URL was found in any source.  Rewriting the CLI layer's 'server' (to None, to a URL) ahead of the lookup makes a nickname that merely parses as having a scheme ('citi:joint', 'chase:biz') skip its own section and the FI database, so every option falls through to the defaults and --write is refused")
    mc0 = _fn(p, "merge_config")
    mc = flat(p, OFXGET, mc0)
    ex = Expander(mc)
    # the CLI layer: the local bound to extractns(<namespace>)
    cli = [st.targets[0].id for st in own_statements(mc) if isinstance(st, ast.Assign) and len(st.targets) == 1 and isinstance(st.targets[0], ast.Name) and isinstance(st.value, ast.Call) and text(st.value.func) == "extractns"]
    looks = [c for c in ast.walk(mc) if isinstance(c, ast.Call) and text(c.func) == "read_config" and len(c.args) == 2]
    if not cli or not looks:
        rep.note("G-R13 undecided: merge_config: CLI layer / read_config lookup not recognised")
        return
    cl = cli[0]
    first = min(looks, key=lambda c: c.lineno)
    key = ex.t(first.args[1]).replace('"', "'")
    import re as _re13
    ok = bool(_re13.fullmatch(r"(%s|extractns\(\w+\))(\['server'\]|\.get\('server'(, None)?\))" % _re13.escape(cl), key))
    rep.check("G-R13", "merge_config:section-read-for-the-name-given", ok, f"the user's section is read for {key}, not for the server name as given on the command line" if not ok else "", gloc(p, first))
    rewritten = None
    for st in ast.walk(mc):
        if getattr(st, "lineno", 10**9) >= first.lineno:
            continue
        if isinstance(st, (ast.Assign, ast.AugAssign, ast.Delete)):
            tgs = st.targets if isinstance(st, (ast.Assign, ast.Delete)) else [st.target]
            for t in tgs:
                if isinstance(t, ast.Subscript) and text(t.value) == cl and isinstance(t.slice, ast.Constant) and t.slice.value == "server":
                    rewritten = rewritten or st
        if isinstance(st, ast.Call) and isinstance(st.func, ast.Attribute) and text(st.func.value) == cl and st.func.attr in ("pop", "update", "setdefault", "clear") and (not st.args or (isinstance(st.args[0], ast.Constant) and st.args[0].value == "server") or st.func.attr in ("update", "clear")):
            rewritten = rewritten or st
    rep.check("G-R13", "merge_config:name-not-reinterpreted-before-the-lookup", rewritten is None, f"`{text(rewritten)[:60]}` changes the command-line layer's 'server' before the configuration is read: a nickname that parses as a URL with a scheme (any name with a colon) is never looked up - its saved url, version, org, fid, user and accounts are ignored and the nickname itself is used as the URL" if rewritten is not None else "", gloc(p, rewritten if rewritten is not None else first))


def g_r14_write_always_writes(p: Project, rep: Report):
    """--write writes"""
    rep.rule("G-R14", "write_config() writes what mk_server_cfg() left in USERCFG on every path but the dry run: between the call of mk_server_cfg() and USERCFG.write(<file>) there is no return / raise that depends on what the section holds.  Skipping the write when the server's section has no option of its own loses the REMOVALS mk_server_cfg() made (a value saved earlier that now equals the lower sources' stays in the file and keeps outranking the FI database) and the generated CLIENTUID of a first run")
    wc0 = _fn(p, "write_config")
    wc = flat(p, OFXGET, wc0, keep=("mk_server_cfg",))
    mk = [c for c in ast.walk(wc) if isinstance(c, ast.Call) and text(c.func) == "mk_server_cfg"]
    wr = [c for c in ast.walk(wc) if isinstance(c, ast.Call) and text(c.func) == "USERCFG.write"]
    if not mk or not wr:
        rep.note("G-R14 undecided: write_config no longer calls mk_server_cfg() / USERCFG.write()")
        return
    lo, hi = min(c.lineno for c in mk), max(c.lineno for c in wr)
    exits = [x for x in ast.walk(wc) if isinstance(x, (ast.Return, ast.Raise)) and lo < x.lineno < hi]
    rep.check("G-R14", "write_config:writes-after-mk_server_cfg", not exits, f"`{text(exits[0])[:40]}` (line {exits[0].lineno}) leaves write_config() after mk_server_cfg() has changed USERCFG and before it is written: the changes of this run - options removed because they now equal the lower sources' values, a generated CLIENTUID - never reach the file" if exits else "", gloc(p, exits[0] if exits else wc0))


def j_r13_account_options_not_greedy(p: Project, rep: Report):
    """an option that takes `one or more` values swallows the positional that follows it"""
    rep.rule("J-R13", "no option of the ofxget parser that may be followed by the positional server nickname consumes a variable number of values (nargs '+' / '*' / argparse.REMAINDER): `ofxget stmt -C 123 mybank` would read `mybank` as a second checking account and leave the server unset, so the section [mybank] - its saved accounts and bank id - is never read")
    m = p.module(OFXGET)
    n = 0
    for c in ast.walk(m.tree):
        if isinstance(c, ast.Call) and isinstance(c.func, ast.Attribute) and c.func.attr == "add_argument":
            n += 1
            kw = {k.arg: k.value for k in c.keywords if k.arg}
            positional = bool(c.args) and all(isinstance(a, ast.Constant) and isinstance(a.value, str) and not a.value.startswith("-") for a in c.args)
            na = kw.get("nargs")
            greedy = na is not None and ((isinstance(na, ast.Constant) and na.value in ("+", "*")) or text(na).endswith("REMAINDER"))
            if greedy and not positional:
                flags = [a.value for a in c.args if isinstance(a, ast.Constant)] or [text(a) for a in c.args]
                rep.check("J-R13", f"argparse:{(flags or ['?'])[0]}:not-greedy", False, f"add_argument({', '.join(map(str, flags))[:40]}, nargs={text(na)}): the option takes every following non-option word, including the server nickname when it comes after the account numbers - that run requests a bogus account and ignores the server's saved settings", gloc(p, c))
    rep.check("J-R13", "argparse:no-greedy-options", True, "", f"{n} add_argument calls")


def g_r7b_persist_predicate_table(p: Project, rep: Report):
    """which options mk_server_cfg() saves, as a truth table"""
    import itertools as _it
    from . import paths as PT

    rep.rule("G-R7b", "the predicate that selects the options to save (test_cfg_val in mk_server_cfg, a nested or module-level function of (opt, value)) is TRUE exactly when the value is given (not in NULL_ARGS), is not the global CLIENTUID (opt == 'clientuid' and value equal to the [DEFAULT] one), and differs from what the lower-ranking sources yield: its exhaustive truth table over those tests - every returning path, boolean return expressions included - is compared with that formula.  `opt != 'clientuid' and value != defaults['clientuid']` for the middle clause (a De Morgan slip when three early returns are merged) never saves a CLIENTUID given with --clientuid, and removes one saved earlier")
    mk0 = _fn(p, "mk_server_cfg")
    cand = [st for st in ast.walk(mk0) if isinstance(st, ast.FunctionDef) and st is not mk0 and len(st.args.args) == 2]
    cand += [st for st in p.module(OFXGET).tree.body if isinstance(st, ast.FunctionDef) and len(st.args.args) >= 2 and any(isinstance(c, ast.Call) and isinstance(c.func, ast.Name) and c.func.id == st.name for c in ast.walk(mk0)) and any(isinstance(x, ast.Name) and x.id == "NULL_ARGS" for x in ast.walk(st))]
    if not cand:
        rep.note("G-R7b undecided: the persist predicate is not a function of its own (inlined into the loop); decided by the other G-R7 clauses")
        return
    fn = cand[0]
    optp, valp = fn.args.args[0].arg, fn.args.args[1].arg
    try:
        rps, pl = PT.return_paths(fn, None, Expander(fn))
    except AnalysisError as e:
        rep.note(f"G-R7b undecided: {e}")
        return
    conds = []
    for pth, rtxt, sc in rps:
        try:
            rc = None if rtxt in ("True", "False") else PT.cond_of(ast.parse(rtxt, mode="eval").body)
        except SyntaxError:
            rep.note(f"G-R7b undecided: predicate returns {rtxt[:50]}")
            return
        conds.append((pth, rtxt, rc))
    atoms = set()
    for pth, rtxt, rc in conds:
        for c_, _w in pth.conds:
            atoms |= c_.atoms()
        if rc is not None:
            atoms |= rc.atoms()
    atoms = sorted(atoms)

    def role(a):
        a_ = a.replace('"', "'")
        if "NULL_ARGS" in a_:
            return "null"
        if a_.replace(" ", "") in (f"{optp}=='clientuid'", f"'clientuid'=={optp}"):
            return "isuid"
        if "['clientuid']" in a_ and valp in a_:
            return "eqglobal"
        if valp in a_ and ("DEFAULTS" in a_ or ".get(" in a_ or "ChainMap" in a_):
            return "eqbase"
        return None

    # does TRUE mean `save` (test_cfg_val) or `skip` (a complement such as _is_redundant)?  Decided at the use site: the arm of
    # the if that stores into the section
    means_save = None
    for iff in [x for x in ast.walk(mk0) if isinstance(x, ast.If)]:
        t_ = iff.test
        neg_ = isinstance(t_, ast.UnaryOp) and isinstance(t_.op, ast.Not)
        core_ = t_.operand if neg_ else t_
        if isinstance(core_, ast.Call) and isinstance(core_.func, ast.Name) and core_.func.id == fn.name:
            stores_body = any(isinstance(x, ast.Assign) and isinstance(x.targets[0], ast.Subscript) for b_ in iff.body for x in ast.walk(b_))
            stores_else = any(isinstance(x, ast.Assign) and isinstance(x.targets[0], ast.Subscript) for b_ in iff.orelse for x in ast.walk(b_))
            if stores_body != stores_else:
                means_save = (stores_body and not neg_) or (stores_else and neg_)
            elif not iff.orelse and any(isinstance(x, ast.Continue) for b_ in iff.body for x in ast.walk(b_)):
                means_save = neg_  # `if skip(..): continue` / `if not save(..): continue`
    if means_save is None:
        rep.note("G-R7b undecided: how mk_server_cfg uses the predicate's answer was not recognised")
        return
    roles = {a: role(a) for a in atoms}
    if any(r is None for r in roles.values()) or len(atoms) > 8 or sorted(set(roles.values())) != ["eqbase", "eqglobal", "isuid", "null"]:
        rep.note(f"G-R7b undecided: tests of the persist predicate not recognised: {[a for a, r in roles.items() if r is None][:3] or sorted(set(roles.values()))}")
        return
    # polarity of each atom relative to its role (canonical atoms are positive forms: `x in NULL_ARGS`, `a == b`)
    wrong = []
    for vals in _it.product([False, True], repeat=len(atoms)):
        env = dict(zip(atoms, vals))
        # atoms of one role must agree
        byrole = {}
        consistent = True
        for a, v in env.items():
            pos = v if " != " not in a and " not in " not in a else (not v)
            if roles[a] in byrole and byrole[roles[a]] != pos:
                consistent = False
            byrole[roles[a]] = pos
        if not consistent:
            continue
        got = None
        for pth, rtxt, rc in conds:
            if pth.holds(env):
                got = (rtxt == "True") if rc is None else rc.ev(env)
                break
        if got is None:
            continue
        want = (not byrole["null"]) and not (byrole["isuid"] and byrole["eqglobal"]) and not byrole["eqbase"]
        if not means_save:
            want = not want
        if got != want:
            wrong.append((dict(byrole), got))
    rep.check("G-R7b", "mk_server_cfg:persist-predicate-table", not wrong, f"the persist predicate answers {wrong[0][1]} for {wrong[0][0]} - expected {not wrong[0][1]} (save iff given, not the global CLIENTUID, and different from the lower sources): e.g. a CLIENTUID passed with --clientuid is never saved and one saved earlier is removed" if wrong else "", gloc(p, fn))
