"""CLI: /venv/bin/python -m sa.check <property> --tier quick|thorough

exit 0  every obligation discharged (or listed as a known finding)
exit 1  VIOLATION property=<id> replay=<path>
exit 2  ANALYSIS-ERROR: the analyser cannot see the mechanism any more (never a property verdict)
"""
from __future__ import annotations

import argparse
import importlib
import json
import os
import sys
import traceback

from . import report as R
from .source import AnalysisError, Project

PROPS = ["C%02d" % i for i in range(1, 20)]

TRUSTED = [
    "CPython ast / re._parser (the parser of the interpreter the library runs on)",
    "stdlib semantics the library delegates to (ET.tostring escaping, ChainMap order, singledispatch, sorted stability, urllib, CookieJar, configparser)",
    "the engine's model of Python class semantics (C3 MRO, class-body binding order, star-import/__all__) - cross-checked against the interpreter in the thorough tier",
]


def load(prop):
    return importlib.import_module(f"sa.props.{prop.lower()}")


def run_property(prop: str, tier: str, project: Project = None, write=True):
    mod = load(prop)
    rep = R.Report(prop, tier)
    project = project or Project()
    mod.run(project, rep)
    return mod, rep


def main(argv=None):
    ap = argparse.ArgumentParser()
    ap.add_argument("prop")
    ap.add_argument("--tier", default=os.environ.get("VERIF_TIER", "quick"), choices=["quick", "thorough"])
    ap.add_argument("--replay", default=None)
    ap.add_argument("--no-selftest", action="store_true")
    a = ap.parse_args(argv)
    prop = a.prop.upper()
    if prop not in PROPS:
        print(f"ANALYSIS-ERROR unknown property {prop}")
        return 2
    try:
        mod, rep = run_property(prop, a.tier)
        if a.replay:
            want = json.loads(open(a.replay).read())
            hits = [o for o in rep.obligations if o.rule == want.get("rule") and o.construct == want.get("construct")]
            for o in hits:
                print(json.dumps(o.as_dict(), indent=1, default=repr))
            if not hits:
                print("instance no longer exists in the working tree")
                return 0
            bad = [o for o in hits if not o.ok]
            if bad:
                print(f"VIOLATION property={prop} replay={a.replay}")
                return 1
            return 0
        selftest_problem = None
        if a.tier == "thorough":
            from . import selftest

            try:
                if not a.no_selftest:
                    rep.extra["selftest"] = selftest.run_for(prop)
                rep.extra["analyser_crosscheck"] = selftest.crosscheck_schema()
            except AnalysisError as e:
                # a self-test problem never hides a property verdict: report the violations first
                selftest_problem = str(e)
                rep.extra["selftest_problem"] = selftest_problem
        code = R.finish(rep, mod.EXPLANATION, getattr(mod, "ASSUMPTIONS", []), TRUSTED + getattr(mod, "TRUSTED", []), write=os.environ.get("SA_NO_EVIDENCE") != "1")
        if selftest_problem and code == 0:
            print(f"ANALYSIS-ERROR property={prop} {selftest_problem}")
            return 2
        n = len(rep.obligations)
        for u in rep.undecided_list:
            print(f"UNDECIDED property={prop} {u['rule']}: {u['why'][:160]}")
        print(f"{prop} [{a.tier}] obligations={n} discharged={n - len(rep.violations)} undecided={len(rep.undecided_list)} units={rep.units} exit={code}")
        return code
    except AnalysisError as e:
        print(f"ANALYSIS-ERROR property={prop} {e}")
        return 2
    except Exception:
        traceback.print_exc()
        print(f"ANALYSIS-ERROR property={prop} internal error in the analyser")
        return 2


if __name__ == "__main__":
    sys.exit(main())
