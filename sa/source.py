"""E1/E2 - source model, demand-driven name resolution, constant evaluator, class model.

Nothing in here imports or executes the analysed package: every fact is read
from the text of the working tree (or of an in-memory overlay of it, used by
the self-test to analyse seeded variants without touching the disk).
"""
from __future__ import annotations

import ast
import os
import pathlib
from typing import Dict, List, Optional


class AnalysisError(Exception):
    """The analyser cannot see the mechanism a rule is about (exit 2)."""


def repo_root() -> pathlib.Path:
    return pathlib.Path(os.environ.get("OFXTOOLS_VERIF_REPO", "/repo"))


# --------------------------------------------------------------------------
# symbolic values
# --------------------------------------------------------------------------
class Ext:
    """A name that resolves outside the analysed package (stdlib, builtins)."""

    def __init__(self, name):
        self.name = name

    def __repr__(self):
        return f"ext:{self.name}"

    def __eq__(self, o):
        return isinstance(o, Ext) and o.name == self.name

    def __hash__(self):
        return hash(("Ext", self.name))


class ModRef:
    def __init__(self, name):
        self.name = name

    def __repr__(self):
        return f"module:{self.name}"


class Unknown:
    def __repr__(self):
        return "<?>"


UNK = Unknown()


class Call:
    """An unevaluated call `func(*args, **kwargs)` whose callee was resolved."""

    def __init__(self, func, args, kwargs, node, module):
        self.func, self.args, self.kwargs, self.node, self.module = func, args, kwargs, node, module

    def __repr__(self):
        return f"Call({self.func!r}, {self.args!r}, {self.kwargs!r})"


class Func:
    def __init__(self, node, module, cls=None):
        self.node, self.module, self.cls = node, module, cls

    @property
    def name(self):
        return self.node.name

    @property
    def qualname(self):
        return f"{self.cls.name}.{self.node.name}" if self.cls else self.node.name

    def __repr__(self):
        return f"<func {self.module}:{self.qualname}>"


class AttrOf:
    """Unresolved attribute access on some value."""

    def __init__(self, base, attr):
        self.base, self.attr = base, attr

    def __repr__(self):
        return f"{self.base!r}.{self.attr}"


# --------------------------------------------------------------------------
# modules
# --------------------------------------------------------------------------
class Module:
    def __init__(self, project, name, relpath, text):
        self.project = project
        self.name = name
        self.relpath = relpath
        self.text = text
        self.is_pkg = relpath.endswith("__init__.py")
        self.tree = ast.parse(text, filename=relpath)
        for parent in ast.walk(self.tree):
            for child in ast.iter_child_nodes(parent):
                child._parent = parent  # type: ignore[attr-defined]
        # ordered bindings: (name or '*', kind, payload)
        self.bindings: List[tuple] = []
        self._collect(self.tree.body)

    def _collect(self, body):
        for st in body:
            if isinstance(st, ast.ImportFrom):
                src = self._abs(st.level, st.module)
                for a in st.names:
                    self.bindings.append((a.asname or a.name, "from", (src, a.name)))
            elif isinstance(st, ast.Import):
                for a in st.names:
                    if a.asname:
                        self.bindings.append((a.asname, "module", a.name))
                    else:
                        top = a.name.split(".")[0]
                        self.bindings.append((top, "module", top))
            elif isinstance(st, ast.ClassDef):
                self.bindings.append((st.name, "class", st))
            elif isinstance(st, (ast.FunctionDef, ast.AsyncFunctionDef)):
                self.bindings.append((st.name, "func", st))
            elif isinstance(st, ast.Assign):
                for t in st.targets:
                    if isinstance(t, ast.Name):
                        self.bindings.append((t.id, "assign", st.value))
            elif isinstance(st, ast.AnnAssign) and st.value is not None and isinstance(st.target, ast.Name):
                self.bindings.append((st.target.id, "assign", st.value))
            elif isinstance(st, ast.Try):
                self._collect(st.body)
                for h in st.handlers:
                    self._collect(h.body)
                self._collect(st.orelse)
                self._collect(st.finalbody)
            elif isinstance(st, ast.If):
                self._collect(st.body)
                self._collect(st.orelse)

    def _abs(self, level, frm):
        if level == 0:
            return frm
        base = self.name.split(".")
        if not self.is_pkg:
            base = base[:-1]
        base = base[: len(base) - (level - 1)]
        return ".".join(base + ([frm] if frm else []))

    # -- lookups ----------------------------------------------------------
    def classdef(self, name) -> Optional[ast.ClassDef]:
        for bname, kind, payload in reversed(self.bindings):
            if bname == name and kind == "class":
                return payload
        return None

    def funcdef(self, name) -> Optional[ast.FunctionDef]:
        for bname, kind, payload in reversed(self.bindings):
            if bname == name and kind == "func":
                return payload
        return None

    def functions(self):
        """All function definitions in the module, with their enclosing class (or None)
        and dotted qualname (nested functions included)."""
        out = []

        def walk(body, cls, prefix):
            for st in body:
                if isinstance(st, (ast.FunctionDef, ast.AsyncFunctionDef)):
                    out.append((prefix + st.name, cls, st))
                    walk(st.body, cls, prefix + st.name + ".")
                elif isinstance(st, ast.ClassDef):
                    walk(st.body, st, prefix + st.name + ".")
                elif isinstance(st, (ast.If, ast.Try, ast.With, ast.For, ast.While)):
                    for fld in ("body", "orelse", "finalbody"):
                        walk(getattr(st, fld, []) or [], cls, prefix)
                    for h in getattr(st, "handlers", []) or []:
                        walk(h.body, cls, prefix)

        walk(self.tree.body, None, "")
        return out


class ClassInfo:
    def __init__(self, project, node, module):
        self.project = project
        self.node, self.module, self.name = node, module, node.name
        self._bases = None
        self._attrs = None
        self._mro = None

    def __repr__(self):
        return f"<class {self.module}.{self.name}>"

    @property
    def mod(self) -> Module:
        return self.project.modules[self.module]

    @property
    def bases(self):
        if self._bases is None:
            self._bases = [self.project.ev(self.mod, b, {}) for b in self.node.bases]
        return self._bases

    @property
    def attrs(self):
        """own class-body bindings in first-insertion order, last value wins"""
        if self._attrs is None:
            d: Dict[str, tuple] = {}
            self._attrs = d

            def body(stmts):
                for s in stmts:
                    if isinstance(s, ast.Assign):
                        for t in s.targets:
                            if isinstance(t, ast.Name):
                                d[t.id] = ("expr", s.value)
                            elif isinstance(t, (ast.Tuple, ast.List)):
                                for e in t.elts:
                                    if isinstance(e, ast.Name):
                                        d[e.id] = ("opaque", s)
                    elif isinstance(s, ast.AnnAssign) and isinstance(s.target, ast.Name):
                        if s.value is not None:
                            d[s.target.id] = ("expr", s.value)
                    elif isinstance(s, (ast.FunctionDef, ast.AsyncFunctionDef)):
                        d[s.name] = ("func", s)
                    elif isinstance(s, ast.ClassDef):
                        d[s.name] = ("class", s)
                    elif isinstance(s, (ast.If, ast.Try)):
                        for fld in ("body", "orelse", "finalbody"):
                            body(getattr(s, fld, []) or [])
                        for h in getattr(s, "handlers", []) or []:
                            body(h.body)

            body(self.node.body)
        return self._attrs

    def own(self, name):
        a = self.attrs.get(name)
        if a is None:
            return None
        if a[0] == "expr":
            return self.project.ev(self.mod, a[1], self._body_env(name))
        if a[0] == "func":
            return Func(a[1], self.module, self)
        return UNK

    def own_func(self, name) -> Optional[ast.FunctionDef]:
        a = self.attrs.get(name)
        if a and a[0] == "func":
            return a[1]
        return None

    def _body_env(self, upto):
        env = {}
        for k, a in self.attrs.items():
            if k == upto:
                break
            env[k] = a
        return {"__classbody__": (self, env)}

    @property
    def mro(self):
        if self._mro is None:
            self._mro = _c3(self)
        return self._mro

    @property
    def repo_mro(self):
        return [c for c in self.mro if isinstance(c, ClassInfo)]

    def lookup(self, name):
        for c in self.mro:
            if isinstance(c, ClassInfo) and name in c.attrs:
                return c.own(name)
        return None

    def definer(self, name) -> Optional["ClassInfo"]:
        for c in self.mro:
            if isinstance(c, ClassInfo) and name in c.attrs:
                return c
        return None

    def find_method(self, name):
        """(defining ClassInfo, FunctionDef) of the first method `name` along the MRO"""
        for c in self.mro:
            if isinstance(c, ClassInfo):
                f = c.own_func(name)
                if f is not None:
                    return c, f
                if name in c.attrs:
                    return c, None
        return None, None

    def is_subclass_of(self, modname, clsname):
        return any(isinstance(c, ClassInfo) and c.name == clsname and c.module == modname for c in self.mro)

    def has_ext_base(self, name):
        return any(isinstance(c, Ext) and c.name.split(".")[-1] == name for c in self.mro)


def _c3(ci):
    def lin(c):
        if not isinstance(c, ClassInfo):
            return [c] if c == Ext("object") else [c, Ext("object")]
        bs = c.bases or [Ext("object")]
        seqs = [list(lin(b)) for b in bs] + [list(bs)]
        res = [c]
        while True:
            seqs = [s for s in seqs if s]
            if not seqs:
                return res
            for s in seqs:
                cand = s[0]
                if not any(cand in t[1:] for t in seqs):
                    break
            else:
                raise AnalysisError(f"MRO conflict for {c}")
            res.append(cand)
            for s in seqs:
                if s[0] == cand:
                    del s[0]

    return lin(ci)


# --------------------------------------------------------------------------
# project
# --------------------------------------------------------------------------
class Project:
    """All modules of the `ofxtools` package, parsed; optional text overlay."""

    PKG = "ofxtools"

    def __init__(self, root: Optional[pathlib.Path] = None, overlay: Optional[Dict[str, str]] = None):
        self.root = pathlib.Path(root) if root else repo_root()
        self.overlay = overlay or {}
        self.modules: Dict[str, Module] = {}
        self.files: Dict[str, str] = {}
        self._classes: Dict[tuple, ClassInfo] = {}
        self._resolving = set()
        self._pub: Dict[str, set] = {}
        pkgdir = self.root / self.PKG
        if not pkgdir.is_dir():
            raise AnalysisError(f"package directory {pkgdir} not found")
        paths = sorted(pkgdir.rglob("*.py"))
        rels = {str(p.relative_to(self.root)) for p in paths} | {k for k in self.overlay if k.endswith(".py")}
        for rel in sorted(rels):
            if rel in self.overlay:
                text = self.overlay[rel]
            else:
                text = (self.root / rel).read_text(encoding="utf-8")
            self.files[rel] = text
            name = self._modname(rel)
            try:
                self.modules[name] = Module(self, name, rel, text)
            except SyntaxError as e:
                raise AnalysisError(f"{rel} does not parse: {e}")

    @staticmethod
    def _modname(rel):
        parts = list(pathlib.PurePosixPath(rel).with_suffix("").parts)
        if parts[-1] == "__init__":
            parts = parts[:-1]
        return ".".join(parts)

    def module(self, name) -> Module:
        m = self.modules.get(name)
        if m is None:
            raise AnalysisError(f"module {name} not found in working tree")
        return m

    # -- class registry ----------------------------------------------------
    def classinfo(self, modname, node) -> ClassInfo:
        key = (modname, node.name, node.lineno, node.col_offset)
        ci = self._classes.get(key)
        if ci is None:
            ci = self._classes[key] = ClassInfo(self, node, modname)
        return ci

    def get_class(self, modname, clsname) -> ClassInfo:
        m = self.module(modname)
        node = m.classdef(clsname)
        if node is None:
            raise AnalysisError(f"class {clsname} not found in {modname}")
        return self.classinfo(modname, node)

    def get_function(self, modname, dotted) -> Func:
        """`f`, `Cls.f` or `Cls.f.inner` in module `modname`"""
        m = self.module(modname)
        for qn, cls, node in m.functions():
            if qn == dotted:
                ci = self.classinfo(modname, cls) if cls is not None else None
                return Func(node, modname, ci)
        raise AnalysisError(f"function {dotted} not found in {modname}")

    # -- resolution ----------------------------------------------------------
    def resolve(self, modname, name):
        """value bound to `name` at the end of module execution (last binding wins)"""
        m = self.modules.get(modname)
        if m is None:
            return Ext(f"{modname}.{name}")
        key = (modname, name)
        if key in self._resolving:
            return UNK
        self._resolving.add(key)
        try:
            for bname, kind, payload in reversed(m.bindings):
                if bname == name:
                    if kind == "class":
                        return self.classinfo(modname, payload)
                    if kind == "func":
                        return Func(payload, modname)
                    if kind == "assign":
                        return self.ev(m, payload, {})
                    if kind == "module":
                        return ModRef(payload) if payload in self.modules else Ext(payload)
                    if kind == "from":
                        src, orig = payload
                        if src in self.modules:
                            if self.has_binding(src, orig):
                                return self.resolve(src, orig)
                            if f"{src}.{orig}" in self.modules:
                                return ModRef(f"{src}.{orig}")
                            return UNK
                        return Ext(f"{src}.{orig}")
                elif bname == "*" and kind == "from":
                    src, _ = payload
                    if src in self.modules and name in self.public(src):
                        return self.resolve(src, name)
            if f"{modname}.{name}" in self.modules:
                return ModRef(f"{modname}.{name}")
            return None
        finally:
            self._resolving.discard(key)

    def has_binding(self, modname, name):
        m = self.modules[modname]
        for bname, kind, payload in m.bindings:
            if bname == name:
                return True
            if bname == "*" and kind == "from" and payload[0] in self.modules and name in self.public(payload[0]):
                return True
        return False

    def public(self, modname):
        """names exported by `from modname import *`"""
        if modname in self._pub:
            return self._pub[modname]
        self._pub[modname] = set()  # cycle guard
        m = self.modules[modname]
        allv = None
        for bname, kind, payload in reversed(m.bindings):
            if bname == "__all__" and kind == "assign":
                allv = self.ev(m, payload, {})
                break
        if isinstance(allv, (list, tuple)):
            names = {x for x in allv if isinstance(x, str)}
        else:
            names = set()
            for bname, kind, payload in m.bindings:
                if bname == "*" and kind == "from":
                    if payload[0] in self.modules:
                        names |= self.public(payload[0])
                elif not bname.startswith("_"):
                    names.add(bname)
        self._pub[modname] = names
        return names

    def star_providers(self, modname, name):
        """modules whose star-import into `modname` provides `name` (in import order)"""
        out = []
        m = self.modules[modname]
        for bname, kind, payload in m.bindings:
            if bname == "*" and kind == "from" and payload[0] in self.modules and name in self.public(payload[0]):
                out.append(payload[0])
            elif bname == name:
                out.append(modname)
        return out

    # -- evaluator -----------------------------------------------------------
    def ev(self, m: Module, node, env):
        if isinstance(node, ast.Constant):
            return node.value
        if isinstance(node, ast.Name):
            cb = env.get("__classbody__")
            if cb and node.id in cb[1]:
                return cb[0].own(node.id)
            if node.id in env:
                return env[node.id]
            v = self.resolve(m.name, node.id)
            if v is None:
                return Ext(node.id)
            return v
        if isinstance(node, (ast.Tuple, ast.List, ast.Set)):
            out = []
            for e in node.elts:
                if isinstance(e, ast.Starred):
                    x = self.ev(m, e.value, env)
                    if isinstance(x, (list, tuple)):
                        out.extend(x)
                    elif isinstance(x, dict):
                        out.extend(x.keys())
                    else:
                        return UNK
                else:
                    out.append(self.ev(m, e, env))
            return tuple(out) if isinstance(node, ast.Tuple) else out
        if isinstance(node, ast.Dict):
            d = {}
            for k, v in zip(node.keys, node.values):
                if k is None:
                    inner = self.ev(m, v, env)
                    if isinstance(inner, dict):
                        d.update(inner)
                    else:
                        return UNK
                else:
                    kk = self.ev(m, k, env)
                    try:
                        hash(kk)
                    except TypeError:
                        return UNK
                    d[kk] = self.ev(m, v, env)
            return d
        if isinstance(node, ast.Attribute):
            base = self.ev(m, node.value, env)
            if isinstance(base, ModRef):
                v = self.resolve(base.name, node.attr)
                return v if v is not None else UNK
            if isinstance(base, ClassInfo):
                v = base.lookup(node.attr)
                return v if v is not None else UNK
            if isinstance(base, Ext):
                return Ext(base.name + "." + node.attr)
            return AttrOf(base, node.attr)
        if isinstance(node, ast.BinOp) and isinstance(node.op, ast.Add):
            l, r = self.ev(m, node.left, env), self.ev(m, node.right, env)
            for t in (list, tuple, str, int):
                if isinstance(l, t) and isinstance(r, t) and not isinstance(l, bool):
                    return l + r
            return UNK
        if isinstance(node, ast.UnaryOp) and isinstance(node.op, ast.USub):
            v = self.ev(m, node.operand, env)
            if isinstance(v, (int, float)) and not isinstance(v, bool):
                return -v
            return UNK
        if isinstance(node, ast.Call):
            f = self.ev(m, node.func, env)
            if isinstance(f, AttrOf) and isinstance(f.base, dict) and not node.args and not node.keywords:
                if f.attr == "keys":
                    return list(f.base.keys())
                if f.attr == "values":
                    return list(f.base.values())
            if isinstance(f, Ext) and f.name == "dict" and len(node.args) <= 1 and all(k.arg for k in node.keywords):
                d_ = {}
                if node.args:
                    inner = self.ev(m, node.args[0], env)
                    if isinstance(inner, dict):
                        d_.update(inner)
                    elif isinstance(inner, (list, tuple)) and all(isinstance(x, (list, tuple)) and len(x) == 2 for x in inner):
                        try:
                            d_.update({x[0]: x[1] for x in inner})
                        except TypeError:
                            return UNK
                    else:
                        return UNK
                for k in node.keywords:
                    d_[k.arg] = self.ev(m, k.value, env)
                return d_
            if isinstance(f, Ext) and f.name in ("tuple", "list", "sorted", "set", "frozenset") and len(node.args) == 1:
                inner = self.ev(m, node.args[0], env)
                if isinstance(inner, dict):
                    inner = list(inner.keys())  # iterating a dict yields its keys
                if isinstance(inner, (list, tuple)):
                    return list(inner) if f.name != "tuple" else tuple(inner)
            args = []
            for a in node.args:
                if isinstance(a, ast.Starred):
                    x = self.ev(m, a.value, env)
                    if isinstance(x, (list, tuple)):
                        args.extend(x)
                    elif isinstance(x, dict):
                        args.extend(x.keys())  # iterating a dict yields its keys
                    else:
                        args.append(UNK)
                else:
                    args.append(self.ev(m, a, env))
            kwargs = {k.arg: self.ev(m, k.value, env) for k in node.keywords if k.arg}
            # itertools combinators over constant sequences (what iterating the result ONCE yields)
            if isinstance(f, Ext) and f.name in ("itertools.combinations", "itertools.permutations", "combinations", "permutations") and len(args) == 2 and not kwargs \
                    and isinstance(args[0], (list, tuple)) and isinstance(args[1], int) and all(isinstance(x, (str, int)) for x in args[0]) and env.get("__materialise__"):
                import itertools as _it

                return [tuple(g) for g in (_it.combinations if "combinations" in f.name else _it.permutations)(list(args[0]), args[1])]
            # a pure table-building helper of the repository: `def f(*groups): return [<comprehension over the arguments>]`
            if isinstance(f, Func) and f.cls is None and env.get("__calldepth__", 0) < 3:
                fnode = f.node
                body = [st for st in fnode.body if not (isinstance(st, ast.Expr) and isinstance(st.value, ast.Constant))]
                if not (len(body) == 1 and isinstance(body[0], ast.Return)):
                    # an accumulate loop (`rows = []; for t in tags: rows.append(..); return rows`) is a comprehension
                    try:
                        from . import canon as _canon

                        cn = _canon.loops_to_comprehensions(_canon.copy_fn(fnode))
                        body = [st for st in cn.body if not (isinstance(st, ast.Expr) and isinstance(st.value, ast.Constant))]
                        if len(body) == 2 and isinstance(body[0], (ast.Assign, ast.AnnAssign)) and isinstance(body[1], ast.Return) and isinstance(body[1].value, ast.Name):
                            tg_ = body[0].targets[0] if isinstance(body[0], ast.Assign) else body[0].target
                            if isinstance(tg_, ast.Name) and tg_.id == body[1].value.id and body[0].value is not None:
                                body = [ast.Return(value=body[0].value)]
                    except Exception:
                        pass
                if len(body) == 1 and isinstance(body[0], ast.Return) and body[0].value is not None and not fnode.args.kwonlyargs and all(v is not UNK for v in args) and not kwargs:
                    fa = fnode.args
                    names = [a.arg for a in fa.args]
                    if len(args) <= len(names) or fa.vararg is not None:
                        e2 = {"__calldepth__": env.get("__calldepth__", 0) + 1, "__materialise__": True}
                        for nm_, v_ in zip(names, args):
                            e2[nm_] = v_
                        ok_ = len(args) >= len(names) - len(fa.defaults)
                        if fa.vararg is not None:
                            e2[fa.vararg.arg] = tuple(args[len(names):])
                        if ok_ and len(args) >= len(names):
                            r_ = self.ev(self.modules[f.module], body[0].value, e2)
                            if isinstance(r_, (list, tuple, dict, str, int)) and r_ is not UNK:
                                return r_
            return Call(f, args, kwargs, node, m.name)
        if isinstance(node, (ast.ListComp, ast.GeneratorExp, ast.SetComp)) and len(node.generators) == 1 and not node.generators[0].ifs:
            g = node.generators[0]
            seq = self.ev(m, g.iter, env)
            if isinstance(seq, dict):
                seq = list(seq.keys())
            if not isinstance(seq, (list, tuple)) or len(seq) > 256:
                return UNK
            out_ = []
            for item in seq:
                e2 = dict(env)
                if isinstance(g.target, ast.Name):
                    e2[g.target.id] = item
                elif isinstance(g.target, (ast.Tuple, ast.List)) and isinstance(item, (list, tuple)) and len(item) == len(g.target.elts) and all(isinstance(t, ast.Name) for t in g.target.elts):
                    for t, x in zip(g.target.elts, item):
                        e2[t.id] = x
                else:
                    return UNK
                out_.append(self.ev(m, node.elt, e2))
            return out_ if not isinstance(node, ast.GeneratorExp) else tuple(out_)
        if isinstance(node, ast.Subscript) and not isinstance(node.slice, ast.Slice):
            base_ = self.ev(m, node.value, env)
            key_ = self.ev(m, node.slice, env)
            try:
                if isinstance(base_, dict) and key_ in base_:
                    return base_[key_]
                if isinstance(base_, (list, tuple)) and isinstance(key_, int) and not isinstance(key_, bool) and -len(base_) <= key_ < len(base_):
                    return base_[key_]
            except TypeError:
                return UNK
            return UNK
        if isinstance(node, ast.JoinedStr):
            return UNK
        return UNK


# --------------------------------------------------------------------------
# AST helpers shared by the rules
# --------------------------------------------------------------------------
def parent(node):
    return getattr(node, "_parent", None)


def enclosing(node, types):
    p = parent(node)
    while p is not None and not isinstance(p, types):
        p = parent(p)
    return p


def dotted(node) -> Optional[str]:
    """`a.b.c` for Name/Attribute chains, else None"""
    parts = []
    while isinstance(node, ast.Attribute):
        parts.append(node.attr)
        node = node.value
    if isinstance(node, ast.Name):
        parts.append(node.id)
        return ".".join(reversed(parts))
    if isinstance(node, ast.Call):
        inner = dotted(node.func)
        if inner is not None:
            parts.append(inner + "()")
            return ".".join(reversed(parts))
    return None


def calls_in(node):
    return [x for x in ast.walk(node) if isinstance(x, ast.Call)]


def stmt_key(node) -> str:
    """normalised statement text, stable under re-formatting and line shifts"""
    try:
        return " ".join(ast.unparse(node).split())[:160]
    except Exception:  # pragma: no cover
        return type(node).__name__


def where(modrel, node) -> str:
    return f"{modrel}:{getattr(node, 'lineno', '?')}"
