"""E7 - obligations, verdicts, known-findings matching, evidence and replay files."""
from __future__ import annotations

import json
import os
import pathlib
import time
from typing import Dict, List, Optional

VERIF = pathlib.Path(__file__).resolve().parent.parent
EVIDENCE_DIR = VERIF / "evidence"
REPLAY_DIR = EVIDENCE_DIR / "replay"
KNOWN_FILE = VERIF / "known_findings.json"


class Obligation:
    __slots__ = ("rule", "construct", "ok", "detail", "loc", "facts")

    def __init__(self, rule, construct, ok, detail="", loc="", facts=None):
        self.rule, self.construct, self.ok, self.detail, self.loc, self.facts = rule, construct, bool(ok), detail, loc, facts

    @property
    def key(self):
        return f"{self.rule}:{self.construct}"

    def as_dict(self):
        d = {"rule": self.rule, "construct": self.construct, "verdict": "holds" if self.ok else "VIOLATED"}
        if self.loc:
            d["where"] = self.loc
        if self.detail:
            d["detail"] = self.detail
        if self.facts is not None:
            d["facts"] = self.facts
        return d


class Report:
    """Collects the obligations a property's rules generate on one run."""

    def __init__(self, prop: str, tier: str = "quick"):
        self.prop = prop
        self.tier = tier
        self.obligations: List[Obligation] = []
        self.notes: List[str] = []
        self.units: Dict[str, int] = {}
        self.rules: Dict[str, str] = {}
        self.extra: Dict[str, object] = {}
        self.undecided_list: List[dict] = []
        self.t0 = time.time()

    # -- recording ---------------------------------------------------------
    def rule(self, rid: str, text: str):
        self.rules[rid] = text

    def check(self, rule, construct, ok, detail="", loc="", facts=None) -> bool:
        self.obligations.append(Obligation(rule, str(construct), ok, detail, loc, facts))
        return bool(ok)

    def note(self, text):
        self.notes.append(text)

    def undecided(self, rule, why):
        """the rule could not recognise the mechanism it is about in this tree: no verdict (never a violation)"""
        self.undecided_list.append({"rule": rule, "why": str(why)[:300]})

    def run(self, fn, *args, **kw):
        """evaluate one rule family; a mechanism that is no longer recognisable leaves the rule undecided
        (obligations recorded before that point stand)"""
        from .source import AnalysisError

        try:
            return fn(*args, **kw)
        except AnalysisError as e:
            self.undecided(getattr(fn, "__name__", str(fn)), e)
            return None

    def run_only(self, rules, fn, *args, constructs=None, **kw):
        """evaluate a rule family but take over only the obligations of the named rules (the clauses this property
        states) - optionally only those whose construct starts with one of `constructs`; args equal to this report
        are replaced by the scratch report"""
        tmp = Report(self.prop, self.tier)
        tmp.run(fn, *[tmp if a is self else a for a in args], **{k: (tmp if v is self else v) for k, v in kw.items()})
        wanted = set(rules)
        for rid, txt in tmp.rules.items():
            if rid in wanted:
                self.rules[rid] = txt
        for o in tmp.obligations:
            if o.rule in wanted and (constructs is None or (constructs(o.construct) if callable(constructs) else any(o.construct.startswith(c) for c in constructs))):
                self.obligations.append(o)
        for n in tmp.notes:
            if any(n.startswith(r) for r in wanted):
                self.notes.append(n)
        for u in tmp.undecided_list:
            self.undecided_list.append(u)

    def unit(self, kind, n=1):
        self.units[kind] = self.units.get(kind, 0) + n

    def floor(self, rule, n, minimum, what):
        """vacuity guard: a rule that matched fewer instances than confirmed by hand is broken"""
        from .source import AnalysisError

        if n < minimum:
            raise AnalysisError(f"{self.prop} {rule}: matched {n} {what}, floor is {minimum} - the rule can no longer see its subject")

    # -- results -----------------------------------------------------------
    @property
    def violations(self) -> List[Obligation]:
        return [o for o in self.obligations if not o.ok]

    def count(self, rule_prefix=None):
        return len([o for o in self.obligations if rule_prefix is None or o.rule.startswith(rule_prefix)])


def load_known() -> dict:
    if not KNOWN_FILE.exists():
        return {"findings": [], "fixed": []}
    return json.loads(KNOWN_FILE.read_text())


def finish(report: Report, explanation: str, assumptions: List[str], trusted_base: List[str], write=True) -> int:
    """Match violations against the known-findings file, write evidence, print verdict lines.
    Returns the process exit code (0 / 1)."""
    known = load_known()
    known_keys = {(f["property"], f["key"]): f for f in known.get("findings", [])}
    new, listed = [], []
    for v in report.violations:
        f = known_keys.get((report.prop, v.key))
        if f is not None:
            listed.append((v, f))
        else:
            new.append(v)

    seen_known = set()
    for v, f in listed:
        if v.key in seen_known:
            continue
        seen_known.add(v.key)
        print(f"KNOWN-FINDING: property={report.prop} {v.key} - {f.get('what', v.detail)}")

    replay_paths = []
    if new and write:
        REPLAY_DIR.mkdir(parents=True, exist_ok=True)
    for i, v in enumerate(new):
        path = REPLAY_DIR / f"{report.prop}-{i}.json"
        if write:
            path.write_text(json.dumps({"property": report.prop, **v.as_dict()}, indent=1, default=repr))
        replay_paths.append(path)
        print(f"  {v.loc or '?'}: [{v.rule}] {v.construct}: {v.detail}")
        print(f"VIOLATION property={report.prop} replay={path}")

    obligations = report.obligations
    distinct = {o.key for o in obligations}
    # samples: a spread over the rules, violations first
    samples = [o.as_dict() for o in (new + [v for v, _ in listed])[:6]]
    per_rule_seen: Dict[str, int] = {}
    for o in obligations:
        if o.ok and per_rule_seen.get(o.rule, 0) < 2 and len(samples) < 40:
            per_rule_seen[o.rule] = per_rule_seen.get(o.rule, 0) + 1
            samples.append(o.as_dict())

    by_rule: Dict[str, Dict[str, int]] = {}
    for o in obligations:
        r = by_rule.setdefault(o.rule, {"instances": 0, "holds": 0})
        r["instances"] += 1
        r["holds"] += 1 if o.ok else 0

    coverage = {
        "explanation": explanation,
        "obligations": len(obligations),
        "discharged": len([o for o in obligations if o.ok]),
        "known_findings": len(seen_known),
        "evaluations": len(obligations),
        "distinct_nontrivial": len(distinct),
        "rule": "one evaluation = one rule instance (rule x resolved construct of the working tree); distinct = distinct rule:construct keys; every instance is non-trivial in the sense that its precondition matched a real construct (rules that match nothing raise ANALYSIS-ERROR through their floor)",
        "rules": report.rules,
        "by_rule": by_rule,
        "units": report.units,
        "samples": samples,
        "notes": report.notes[:40],
        "undecided": report.undecided_list,
        "trusted_base": trusted_base,
        "checker_cmd": f"/venv/bin/python -m sa.check {report.prop} --tier {report.tier}",
        "exhaustive": True,
    }
    coverage.update(report.extra)
    ev = {
        "property_id": report.prop,
        "tier": report.tier,
        "seed": int(os.environ.get("VERIF_SEED", "0") or 0),
        "level": "other",
        "coverage": coverage,
        "assumptions": assumptions,
        "wall_s": round(time.time() - report.t0, 3),
        "violations": len(new),
    }
    if write:
        EVIDENCE_DIR.mkdir(parents=True, exist_ok=True)
        (EVIDENCE_DIR / f"{report.prop}.json").write_text(json.dumps(ev, indent=1, default=repr) + "\n")
    return 1 if new else 0
