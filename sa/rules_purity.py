"""Effect rules E-R1..4 (C17): every write effect in scope is classified by the provenance of its
target; anything that is not fresh, construction-time, per-use receiver state or an entry of the
frozen triage table (whose side conditions are re-checked on every run) is a violation."""
from __future__ import annotations

import ast
from typing import Dict, List, Optional, Set, Tuple

from .cfg import CFG, Node
from .dataflow import MUTATORS, Reaching, Write, own_nodes, own_statements, params_of, root_name, writes_in
from .match import text
from .report import Report
from .schema import BASE, TYPES, Schema
from .source import AnalysisError, ClassInfo, Ext, Func, ModRef, Module, Project, dotted, parent

QUICK_SCOPE = ["ofxtools.Types", "ofxtools.Parser", "ofxtools.header", "ofxtools.utils", "ofxtools.lib"]
# the CLI scripts, the configuration layer, the OFX Home client and the network client keep files,
# sockets and ConfigParser objects by design; the property is about parse / convert / serialize
OUT_OF_SCOPE = ("ofxtools.scripts", "ofxtools.config", "ofxtools.ofxhome", "ofxtools.Client", "ofxtools.__version__")
SCOPE_PREFIX = "ofxtools.models"
EXTRA_FUNCS = [("ofxtools.Client", "OFXClient.serialize")]

FRESH_CALLS = {
    "deepcopy", "copy", "list", "dict", "set", "tuple", "sorted", "bytes", "bytearray", "str", "int", "frozenset", "reversed",
    "BytesIO", "StringIO", "Element", "SubElement", "fromstring", "open", "reduce", "zip", "map", "filter", "enumerate",
    "groupby", "tee", "chain", "from_iterable", "format", "join", "split", "strip", "lower", "upper", "replace", "items", "keys", "values",
    "to_etree", "groom", "ungroom", "Signature", "Parameter", "bind", "match", "search", "finditer", "groupdict", "decode", "encode", "read", "readline",
    "timedelta", "datetime", "time", "Decimal", "quantize", "strftime", "getLogger", "compile", "unescape", "escape", "super", "__init__",
}
# calls that return a NEW container / object whose members are still the argument's members: the result itself may
# be changed freely, what is reached THROUGH it (find(), iteration, [i], .attr) is as shared as it was
SHALLOW_CALLS = {"copy", "list", "dict", "set", "tuple", "sorted", "reversed", "frozenset"}
ALIAS_CALLS = {"find", "findall", "iter", "iterfind", "get", "pop", "getattr", "next", "__getitem__", "getroot", "close", "end", "start"}
CONSTRUCTION = {"__init__", "__new__", "__set_name__", "__init_subclass__", "__post_init__"}


class Ctx:
    def __init__(self, p: Project, modname: str, qn: str, cls_node, fn):
        self.p, self.modname, self.qn, self.cls_node, self.fn = p, modname, qn, cls_node, fn
        self.mod = p.module(modname)
        self.cfg = CFG(fn)
        self.reach = Reaching(self.cfg)
        self.params = params_of(fn)
        self.is_static = any((dotted(d) or "").split(".")[-1] == "staticmethod" for d in fn.decorator_list)
        self.is_classmethod = any((dotted(d) or "").split(".")[-1] == "classmethod" for d in fn.decorator_list)
        # directly inside a class body?
        self.is_method = isinstance(parent(fn), ast.ClassDef)
        self.ci = p.classinfo(modname, cls_node) if cls_node is not None else None
        self.recv = self.params[0] if (self.is_method and not self.is_static and self.params) else None
        a = fn.args
        self.star = {x.arg for x in (a.vararg, a.kwarg) if x is not None}
        # enclosing functions (closures)
        self.outer = []
        par = parent(fn)
        while par is not None:
            if isinstance(par, (ast.FunctionDef, ast.AsyncFunctionDef)):
                self.outer.append(par)
            par = parent(par)

    def where(self, node):
        return f"{self.mod.relpath}:{getattr(node, 'lineno', '?')}"


def _callee_last(call: ast.Call) -> Optional[str]:
    f = call.func
    if isinstance(f, ast.Attribute):
        return f.attr
    if isinstance(f, ast.Name):
        return f.id
    return None


def _derived(k: Tuple[str, str]) -> Tuple[str, str]:
    """classification of an object REACHED THROUGH the object classified k"""
    if k[0] == "fresh" and k[1].startswith("shallow-of:"):
        _, kind, detail = k[1].split(":", 2)
        return kind, detail
    return k


def classify_value(v, node: Node, ctx: Ctx, depth=8) -> Tuple[str, str]:
    """('fresh'|'param'|'self'|'cls'|'global'|'unknown', detail) for the object an expression denotes"""
    if depth <= 0:
        return "unknown", "depth"
    if isinstance(v, (ast.Constant, ast.List, ast.Dict, ast.Set, ast.Tuple, ast.ListComp, ast.DictComp, ast.SetComp, ast.GeneratorExp, ast.JoinedStr, ast.BinOp, ast.Compare, ast.BoolOp, ast.Lambda)):
        return "fresh", "literal/display"
    if isinstance(v, ast.Call):
        last = _callee_last(v)
        if last in ALIAS_CALLS and isinstance(v.func, ast.Attribute):
            return _derived(classify_value(v.func.value, node, ctx, depth - 1))
        if last == "getattr" and v.args:
            return _derived(classify_value(v.args[0], node, ctx, depth - 1))
        if last in SHALLOW_CALLS and isinstance(v.func, ast.Name) and len(v.args) == 1 and not v.keywords:
            src = _derived(classify_value(v.args[0], node, ctx, depth - 1))
            if src[0] in ("param", "self", "cls", "global"):
                return "fresh", f"shallow-of:{src[0]}:{src[1]}"
            return "fresh", f"{last}()"
        if last in FRESH_CALLS:
            return "fresh", f"{last}()"
        # constructor of a repo class / cls(...)
        if isinstance(v.func, ast.Name):
            if v.func.id in ("cls",):
                return "fresh", "cls()"
            r = ctx.p.resolve(ctx.modname, v.func.id)
            if isinstance(r, ClassInfo):
                return "fresh", f"{r.name}()"
        if isinstance(v.func, ast.Attribute):
            r = ctx.p.ev(ctx.mod, v.func, {})
            if isinstance(r, ClassInfo):
                return "fresh", f"{r.name}()"
            if isinstance(r, Ext):
                return "fresh", f"{r.name}()"
        return "unknown", f"call {text(v.func)}"
    if isinstance(v, (ast.Attribute, ast.Subscript, ast.Starred)):
        return _derived(classify_value(v.value, node, ctx, depth - 1))
    if isinstance(v, ast.IfExp):
        a, b = classify_value(v.body, node, ctx, depth - 1), classify_value(v.orelse, node, ctx, depth - 1)
        return a if a[0] != "fresh" else b
    if isinstance(v, ast.Name):
        return classify_name(v.id, node, ctx, depth - 1)
    return "unknown", type(v).__name__


def classify_name(name: str, node: Node, ctx: Ctx, depth=8) -> Tuple[str, str]:
    ds = ctx.reach.defs_at(node, name)
    if not ds:
        # closure variable of an enclosing function, or module global / builtin
        for o in ctx.outer:
            if name in params_of(o):
                return "param", f"closure parameter {name}"
            for st in own_statements(o):
                from .dataflow import defs_in_stmt

                for d in defs_in_stmt(st):
                    if d.name == name:
                        if d.kind == "assign" and isinstance(d.value, ast.AST):
                            octx = ctx  # classify in the outer scope flow-insensitively
                            k = classify_value(d.value, node, _OuterCtx(ctx, o), depth - 1)
                            return k
                        return "unknown", f"closure {name}"
        r = ctx.p.resolve(ctx.modname, name)
        if r is None:
            return "fresh", f"builtin {name}"
        return "global", f"module-level {name}"
    worst = ("fresh", "")
    rank = {"fresh": 0, "unknown": 1, "cls": 2, "self": 2, "param": 3, "global": 4}
    for d in ds:
        if d.kind == "param":
            if name == ctx.recv:
                k = ("cls" if ctx.is_classmethod else "self", name)
            elif name in ctx.star:
                k = ("fresh", f"*{name}")
            else:
                k = ("param", name)
        elif d.kind in ("assign", "with") and isinstance(d.value, ast.AST):
            dn = ctx.cfg.node_of(d.stmt) or node
            k = classify_value(d.value, dn, ctx, depth - 1)
        elif d.kind in ("for", "unpack") and isinstance(d.value, ast.AST):
            dn = ctx.cfg.node_of(d.stmt) or node
            inner = d.value
            while isinstance(inner, ast.Call) and _callee_last(inner) in ("set", "list", "sorted", "reversed", "enumerate", "tuple", "iter") and inner.args:
                inner = inner.args[0]
            if isinstance(inner, ast.Call) and _callee_last(inner) in FRESH_CALLS and not (_callee_last(inner) in ("items", "values", "keys")) and not (_callee_last(inner) in SHALLOW_CALLS):
                k = ("fresh", "iterating a fresh collection")
            else:
                # loop nodes: the iterable is evaluated at the loop header; the members of a shallow copy are the
                # members of what was copied
                k = _derived(classify_value(inner, dn, ctx, depth - 1))
        elif d.kind == "augassign":
            # `x += ...` keeps (or extends in place) whatever x was bound to before
            dn = ctx.cfg.node_of(d.stmt)
            prior = [q for q in ctx.reach.defs_at(dn, name) if q is not d] if dn is not None else []
            if prior and depth > 0 and dn is not node:
                k = classify_name(name, dn, ctx, depth - 1)
            else:
                k = ("unknown", "augassign")
        elif d.kind in ("def", "import", "except"):
            k = ("fresh", d.kind)
        else:
            k = ("unknown", d.kind)
        if rank[k[0]] > rank[worst[0]]:
            worst = k
        elif k[0] == "fresh" and worst[0] == "fresh" and k[1].startswith("shallow-of:") and not worst[1].startswith("shallow-of:"):
            worst = k  # a shallow copy is fresh itself, but what is reached through it is not: keep that fact
    return worst


class _OuterCtx:
    """minimal stand-in to classify a closure variable's definition in the enclosing function"""

    def __init__(self, inner: Ctx, outer_fn):
        self.p, self.modname, self.mod = inner.p, inner.modname, inner.mod
        self.fn = outer_fn
        self.cfg = CFG(outer_fn)
        self.reach = Reaching(self.cfg)
        self.params = params_of(outer_fn)
        self.is_classmethod = any((dotted(d) or "").split(".")[-1] == "classmethod" for d in outer_fn.decorator_list)
        self.recv = self.params[0] if isinstance(parent(outer_fn), ast.ClassDef) and self.params else None
        a = outer_fn.args
        self.star = {x.arg for x in (a.vararg, a.kwarg) if x is not None}
        self.outer = []


def scope_functions(p: Project, thorough: bool):
    out = []
    for name, m in p.modules.items():
        ok = name in QUICK_SCOPE or name.startswith(SCOPE_PREFIX)
        if thorough and not any(name == o or name.startswith(o + ".") for o in OUT_OF_SCOPE):
            ok = True
        if not ok:
            continue
        for qn, cls, fn in m.functions():
            out.append((name, qn, cls, fn))
    if True:
        for mn, qn in EXTRA_FUNCS:
            f = p.get_function(mn, qn)
            out.append((mn, qn, f.cls.node if f.cls else None, f.node))
    return out


def _attr_reads(p: Project, funcs) -> Set[str]:
    names: Set[str] = set()
    for _, _, _, fn in funcs:
        for n in ast.walk(fn):
            if isinstance(n, ast.Attribute) and isinstance(n.ctx, ast.Load):
                names.add(n.attr)
            elif isinstance(n, ast.Call) and isinstance(n.func, ast.Name) and n.func.id in ("getattr", "hasattr") and len(n.args) >= 2 and isinstance(n.args[1], ast.Constant):
                names.add(str(n.args[1].value))
    return names


def _name_reads(p: Project, funcs) -> Set[str]:
    names: Set[str] = set()
    for _, _, _, fn in funcs:
        for n in ast.walk(fn):
            if isinstance(n, ast.Name) and isinstance(n.ctx, ast.Load):
                names.add(n.id)
    return names


def _call_sites(p: Project, fname: str):
    """(module, enclosing function qualname, fn node, call) for every call `...fname(...)` in the package"""
    out = []
    for name, m in p.modules.items():
        for qn, cls, fn in m.functions():
            for n in own_nodes(fn):
                if isinstance(n, ast.Call) and _callee_last(n) == fname:
                    out.append((name, qn, cls, fn, n))
        for st in m.tree.body:
            if not isinstance(st, (ast.FunctionDef, ast.ClassDef)):
                for n in ast.walk(st):
                    if isinstance(n, ast.Call) and _callee_last(n) == fname:
                        out.append((name, "<module>", None, None, n))
    return out


def _arg_fresh_at_sites(p: Project, fname: str, argpos: int, allow_recursive_in: Optional[str] = None, _depth: int = 2) -> Tuple[bool, str]:
    sites = _call_sites(p, fname)
    if not sites:
        return True, "no call sites"
    for modname, qn, cls, fn, call in sites:
        if fn is None:
            return False, f"called at module level in {modname}"
        if len(call.args) <= argpos:
            return False, f"{modname}:{qn} calls {fname} without positional argument {argpos}"
        ctx = Ctx(p, modname, qn, cls, fn)
        node = None
        for n in ctx.cfg.nodes:
            if any(c is call for c in n.calls()):
                node = n
        if node is None:
            return False, f"{modname}:{qn}: call site not in the CFG"
        k, why = classify_value(call.args[argpos], node, ctx)
        if k == "fresh":
            continue
        if allow_recursive_in and qn == allow_recursive_in:
            # recursion on a part of the (already admitted) argument
            continue
        # mutual recursion: the call sits in a private helper that only the admitted function itself calls
        # (indent -> _indent_parent -> indent(child)): still recursion on a part of the admitted argument
        short0_ = qn.split(".")[-1]
        if allow_recursive_in and short0_.startswith("_") and not short0_.startswith("__"):
            hs_ = _call_sites(p, short0_)
            if hs_ and all(q_.split(".")[-1] == allow_recursive_in or q_.split(".")[-1] == short0_ for _m, q_, _c, _f, _k in hs_):
                continue
        # a private helper in between that merely hands its own parameter on: judged at ITS call sites
        short_ = qn.split(".")[-1]
        arg_ = call.args[argpos]
        if _depth > 0 and k == "param" and isinstance(arg_, ast.Name) and short_.startswith("_") and not short_.startswith("__") and arg_.id in ctx.params:
            pos2 = ctx.params.index(arg_.id) - (1 if (ctx.is_method and not ctx.is_static) else 0)
            if pos2 >= 0:
                ok2, _r2 = _arg_fresh_at_sites(p, short_, pos2, _depth=_depth - 1)
                if ok2 and _r2 != "no call sites":
                    continue
        return False, f"{modname}:{qn} passes a {k} object ({why}) to {fname}()"
    return True, f"{len(sites)} call sites pass a fresh object"


def _judged_at_call_sites(p: Project, ctx: "Ctx", w: Write, schema, depth: int = 2) -> Tuple[bool, str]:
    """a PRIVATE helper (leading underscore, or a nested function) that changes an object it is handed is judged
    where it is called: allowed iff every call site passes, for that parameter, a fresh object or an object the
    calling function itself may change (its own triage entry).  Anything else - public helper, no call site, argument
    not a plain name / positional - leaves the write to the general rule."""
    name = ctx.fn.name
    nested = bool(ctx.outer)
    if not nested and not (name.startswith("_") and not name.startswith("__")):
        return False, ""
    root = root_name(w.target)
    params = [a.arg for a in ctx.fn.args.args] + [a.arg for a in ctx.fn.args.kwonlyargs]
    if root not in params:
        # a local that is (part of) a parameter: `last = parent` / `for child in parent: last = child`
        node0 = ctx.cfg.node_of(w.stmt)
        base0 = w.target.value if isinstance(w.target, (ast.Attribute, ast.Subscript)) else w.target
        k0, why0 = classify_value(base0, node0, ctx) if node0 is not None else (None, None)
        if k0 == "param" and why0 in params:
            root = why0
        else:
            return False, ""
    pos = params.index(root)
    sites = [s_ for s_ in _call_sites(p, name) if s_[0] == ctx.modname]
    if not sites:
        return False, ""
    for modname, qn, cls, fn, call in sites:
        if fn is None or fn is ctx.fn:
            return False, ""
        # bound calls (self._h(x) / cls._h(x)) do not pass the receiver positionally
        shift = 1 if (isinstance(call.func, ast.Attribute) and ctx.recv is not None) else 0
        arg = None
        if pos - shift >= 0 and len(call.args) > pos - shift and not any(isinstance(a_, ast.Starred) for a_ in call.args):
            arg = call.args[pos - shift]
        else:
            arg = next((k_.value for k_ in call.keywords if k_.arg == root), None)
        if arg is None:
            return False, ""
        c2 = Ctx(p, modname, qn, cls, fn)
        node = next((n_ for n_ in c2.cfg.nodes if any(c_ is call for c_ in n_.calls())), None)
        if node is None:
            return False, ""
        k2, why2 = classify_value(arg, node, c2)
        if k2 == "fresh":
            continue
        if k2 in ("param", "unknown") and isinstance(arg, ast.Name):
            # the same store, seen from the caller: the helper's parameter replaced by the caller's argument
            from .dataflow import clone

            tgt2 = clone(w.target)
            for x_ in ast.walk(tgt2):
                if isinstance(x_, ast.Name) and x_.id == root:
                    x_.id = arg.id
            stmt2 = node.stmt
            w2 = Write(w.kind, tgt2, node, stmt2)
            allowed2, _r = triage(c2, w2, "param", why2, schema)
            if allowed2 is True:
                continue
            if allowed2 is None and depth > 0:
                ok3, _ = _judged_at_call_sites(p, c2, w2, schema, depth - 1)
                if ok3:
                    continue
        return False, ""
    return True, f"private helper: each of its {len(sites)} call site(s) passes a fresh object or one the caller may change"


# --------------------------------------------------------------------------
def class_level_container(ci: ClassInfo, holder: str):
    """((class, stmt) | None, owned): where `holder` is bound to a mutable container display in a class body of the
    MRO, and whether some __init__/__new__ of the MRO re-binds self.<holder> per instance"""
    shared_at = None
    owned = False
    for c in ci.mro:
        if not isinstance(c, ClassInfo):
            continue
        for st in c.node.body:
            tg = st.targets[0] if isinstance(st, ast.Assign) and len(st.targets) == 1 else (st.target if isinstance(st, ast.AnnAssign) and st.value is not None else None)
            if isinstance(tg, ast.Name) and tg.id == holder and isinstance(st.value, (ast.List, ast.Dict, ast.Set, ast.ListComp, ast.DictComp, ast.SetComp)) or (isinstance(tg, ast.Name) and tg.id == holder and isinstance(st.value, ast.Call) and text(st.value.func) in ("list", "dict", "set", "collections.deque", "deque", "defaultdict", "collections.defaultdict")):
                shared_at = shared_at or (c, st)
        for nm_ in ("__init__", "__new__"):
            f_ = c.own_func(nm_)
            if f_ is not None and any(isinstance(x, (ast.Assign, ast.AnnAssign)) and any(isinstance(y, ast.Attribute) and y.attr == holder and isinstance(y.value, ast.Name) and y.value.id == "self" for y in ((x.targets if isinstance(x, ast.Assign) else [x.target]))) for x in ast.walk(f_)):
                owned = True
    return shared_at, owned



def triage(ctx: Ctx, w: Write, kind: str, why: str, schema: Schema):
    """the frozen table: (allowed?, reason) for writes that are neither fresh nor construction-time"""
    p = ctx.p
    qn, mod = ctx.qn, ctx.modname
    tgt = text(w.target)
    # 1. descriptor stores on the instance it is given (E-R3 wants exactly this)
    if mod == TYPES and qn.endswith(".__set__") and kind == "param":
        from .match import Expander as _Ex

        tgt = _Ex(ctx.fn).t(w.target)
        ok = tgt.startswith(f"{ctx.params[1]}.__dict__[self.name]") or tgt == f"{ctx.params[1]}.__dict__"
        return ok, "descriptor stores the value on the owning instance under its own name" if ok else f"descriptor __set__ writes {tgt}"
    # 2. class decorator at definition time
    if mod == TYPES and qn == "call_signature.decorate" and kind == "param":
        return True, "runs once per class at import (definition time)"
    # 3. reducer accumulator
    if mod == BASE and qn.startswith("Aggregate._convert.") and kind == "param":
        from .rules_schema import reducer
        from .match import Expander

        try:
            outer, inner, call = reducer(p)
        except AnalysisError:
            return None, "reducer not recognised"
        if qn != f"Aggregate._convert.{inner.name}":
            return None, "not the reducer"
        init = Expander(outer).x(call.args[2]) if len(call.args) > 2 else None
        fresh = isinstance(init, ast.Tuple) and all(isinstance(e, (ast.List, ast.Dict, ast.Constant, ast.UnaryOp)) for e in init.elts)
        if not fresh and isinstance(init, ast.Call) and not any(isinstance(a_, ast.Starred) for a_ in init.args):
            # a record type built from fresh literals: _State([], {}, -1, False) / _State(args=[], kwargs={}, ...)
            parts_ = list(init.args) + [k.value for k in init.keywords]
            fresh = bool(parts_) and all(isinstance(e, (ast.List, ast.Dict, ast.Constant, ast.UnaryOp)) for e in parts_)
            if not parts_ and isinstance(init.func, ast.Name):
                # _State(): a repo class whose __init__ (self only) binds nothing but fresh literals
                rc_ = p.resolve(mod, init.func.id)
                if isinstance(rc_, ClassInfo):
                    i_ = rc_.own_func("__init__")
                    if i_ is not None and len(i_.args.args) == 1 and not i_.args.vararg and not i_.args.kwarg:
                        vals_ = [st_.value for st_ in ast.walk(i_) if isinstance(st_, (ast.Assign, ast.AnnAssign)) and st_.value is not None]
                        fresh = bool(vals_) and all(isinstance(e, (ast.List, ast.Dict, ast.Constant, ast.UnaryOp)) and not getattr(e, "elts", None) and not getattr(e, "keys", None) for e in vals_)
        sites = [s for s in _call_sites(p, inner.name)]
        return fresh and not sites, "accumulator of functools.reduce, whose initial value is a fresh literal; no other call site" if fresh and not sites else f"accumulator not provably fresh (initial={ast.unparse(init) if init is not None else None}, other call sites={len(sites)})"
    # 3b. the reducer as a module-level function, handed to functools.reduce by name or through functools.partial(f, <bound
    #     arguments>): the accumulator is the first parameter left unbound; same side conditions (fresh initial value, no
    #     other call site)
    if kind == "param" and isinstance(ctx.fn, ast.FunctionDef):
        fname_ = ctx.fn.name
        m_ = p.module(mod)
        for outer_ in [f_ for _q, _c, f_ in m_.functions()]:
            for rc_ in ast.walk(outer_):
                if not (isinstance(rc_, ast.Call) and dotted(rc_.func) in ("functools.reduce", "reduce") and len(rc_.args) >= 3):
                    continue
                r0 = rc_.args[0]
                nbound = None
                if isinstance(r0, ast.Name) and r0.id == fname_:
                    nbound = 0
                elif isinstance(r0, ast.Name):
                    for st_ in ast.walk(outer_):
                        if isinstance(st_, ast.Assign) and len(st_.targets) == 1 and isinstance(st_.targets[0], ast.Name) and st_.targets[0].id == r0.id and isinstance(st_.value, ast.Call) and dotted(st_.value.func) in ("functools.partial", "partial") and st_.value.args and isinstance(st_.value.args[0], ast.Name) and st_.value.args[0].id == fname_ and not st_.value.keywords:
                            nbound = len(st_.value.args) - 1
                elif isinstance(r0, ast.Call) and dotted(r0.func) in ("functools.partial", "partial") and r0.args and isinstance(r0.args[0], ast.Name) and r0.args[0].id == fname_ and not r0.keywords:
                    nbound = len(r0.args) - 1
                if nbound is None:
                    continue
                ps_ = [a.arg for a in ctx.fn.args.args]
                if nbound >= len(ps_) or why != ps_[nbound]:
                    continue
                init_ = rc_.args[2]
                parts_ = (list(init_.args) + [k.value for k in init_.keywords]) if isinstance(init_, ast.Call) else (list(init_.elts) if isinstance(init_, ast.Tuple) else None)
                fresh_ = parts_ is not None and bool(parts_) and all(isinstance(e, (ast.List, ast.Dict, ast.Constant, ast.UnaryOp)) and not getattr(e, "elts", None) and not getattr(e, "keys", None) for e in parts_)
                direct_ = [s_ for s_ in _call_sites(p, fname_) if not (isinstance(s_[4].func, ast.Attribute) and s_[4].func.attr == "partial")]
                others_ = [s_ for s_ in direct_ if s_[4] is not rc_ and not any(s_[4] is a_ for a_ in ast.walk(rc_))]
                if fresh_ and not others_:
                    return True, "accumulator of functools.reduce (reducer passed by name / through functools.partial), whose initial value is a fresh literal; no other call site"
    # 4. _listAppend(root, member): root allocated by the caller
    if mod == BASE and qn.endswith("._listAppend") and kind == "param":
        ok, reason = _arg_fresh_at_sites(p, "_listAppend", 0)
        return ok, "appends to the tree under construction: " + reason
    # 5. indent(elem): every caller passes the fresh tree from to_etree(); recursion on its children
    if mod == "ofxtools.utils" and qn == "indent":
        ok, reason = _arg_fresh_at_sites(p, "indent", 0, allow_recursive_in="indent")
        return ok, "pretty-printer mutates the tree it is given: " + reason
    # 6. stream cursor
    if mod == "ofxtools.header" and kind == "param" and w.kind in ("call:seek",):
        return True, "moves the stream position only; the bytes are untouched"
    # 7. _apply_args appends to the instance under construction
    if qn.endswith("._apply_args") and kind == "self":
        sites = _call_sites(p, "_apply_args")
        ok = all(q.endswith(".__init__") for _, q, _, _, _ in sites) and bool(sites)
        return ok, "called only from __init__ (construction)" if ok else f"_apply_args is called outside construction: {[q for _, q, _, _, _ in sites]}"
    # 7b. a private method / private module-level helper that only constructors call, working on the instance under
    #     construction (the object is not visible to anyone else yet)
    short = qn.split(".")[-1]
    if short.startswith("_") and not short.startswith("__") and kind in ("self", "param"):
        sites = _call_sites(p, short)
        if sites and all(q.split(".")[-1] in CONSTRUCTION for _, q, _, _, _ in sites):
            if kind == "self":
                return True, f"{short} is called only from constructors ({len(sites)} site(s)): it fills in the instance under construction"
            pname = why if why in ctx.params else None
            if pname is not None:
                pos = ctx.params.index(pname)
                if all(len(c.args) > pos and isinstance(c.args[pos], ast.Name) and c.args[pos].id == "self" for _, _, _, _, c in sites):
                    return True, f"{short} is called only from constructors, which pass the instance under construction as `{pname}`"
    # 7c. a private helper that fills in an object its callers have just allocated: every call site passes a fresh
    #     object at that position (recursion on itself allowed)
    if short.startswith("_") and not short.startswith("__") and kind == "param" and why in ctx.params:
        pos = ctx.params.index(why) - (1 if (ctx.is_method and not ctx.is_static) else 0)
        if pos >= 0:
            ok_, reason_ = _arg_fresh_at_sites(p, short, pos, allow_recursive_in=qn)
            if ok_ and reason_ != "no call sites":
                return True, f"fills in the object its callers allocate for it: {reason_}"
    # 8a. a container that lives on the CLASS (mutable display in the class body, never re-bound per instance in
    #     __init__) and is changed in place through self: one object shared by every instance and thread
    if ctx.ci is not None and kind == "self":
        t_ = w.target
        holder = None
        if w.kind.startswith("call:") and isinstance(t_, ast.Attribute) and isinstance(t_.value, ast.Name) and t_.value.id == ctx.recv:
            holder = t_.attr
        elif w.kind in ("item", "del") and isinstance(t_, ast.Subscript) and isinstance(t_.value, ast.Attribute) and isinstance(t_.value.value, ast.Name) and t_.value.value.id == ctx.recv:
            holder = t_.value.attr
        if holder is not None:
            shared_at, owned = class_level_container(ctx.ci, holder)
            if shared_at is not None and not owned:
                return False, f"{ctx.ci.name}.{holder} is a mutable container created once in the class body of {shared_at[0].name} and never re-bound per instance; {text(w.target)} changes it in place through self, so every {ctx.ci.name} in the process (and every thread) shares one {holder}: a parse that fails half-way, or two concurrent parses, corrupt the next one"
    # 8. per-use parser objects
    if ctx.ci is not None and kind == "self" and ctx.ci.module == "ofxtools.Parser" and any(isinstance(b, Ext) and ("ElementTree" in b.name or "TreeBuilder" in b.name or b.name.startswith("ET.")) for b in ctx.ci.mro):
        return True, f"state of the per-parse {ctx.ci.name} object (E-R4 checks that none is shared)"
    # 9. statements shortcuts annotate the statement they return
    if kind == "self" and ctx.ci is not None and schema.is_aggregate(ctx.ci) and isinstance(w.target, ast.Attribute) and w.kind == "attr":
        fn = ctx.fn
        is_prop = any(isinstance(d, ast.Name) and d.id == "property" for d in fn.decorator_list)
        declared_somewhere = any(w.target.attr in schema.spec(c) for c in schema.exported().values() if w.target.attr in ("trnuid", "cltcookie")) if False else False
        if is_prop and isinstance(w.stmt, ast.Assign) and isinstance(w.stmt.value, ast.Attribute) and w.stmt.value.attr == w.target.attr:
            # x.attr = y.attr : copies the wrapper's value of the same name onto the wrapped statement; the name is
            # not a child of the statement classes (invisible to to_etree and to equality of declared children)
            return True, "convenience annotation outside parse/convert/write: idempotent copy of the wrapper's like-named value"
    # 9b. the same copy factored into a private helper `_staple(source, target)`: like-named attribute copied from one
    #     parameter onto another, every call site inside a shortcut property of a model class
    val9 = None
    if kind == "param" and w.kind == "attr" and isinstance(w.stmt, ast.Assign):
        from .match import Expander as _Ex9

        val9 = _Ex9(ctx.fn).x(w.stmt.value)  # `uid = source.trnuid; target.trnuid = uid`
    if val9 is not None and isinstance(w.target, ast.Attribute) and isinstance(val9, ast.Attribute) and val9.attr == w.target.attr \
            and isinstance(val9.value, ast.Name) and isinstance(w.target.value, ast.Name) and ctx.fn.name.startswith("_") and not ctx.fn.name.startswith("__"):
        allp = [a.arg for a in ctx.fn.args.args] + [a.arg for a in ctx.fn.args.kwonlyargs]
        if val9.value.id in allp and w.target.value.id in allp and val9.value.id != w.target.value.id:
            sites = _call_sites(p, ctx.fn.name)
            if sites and all(fn_ is not None and any(isinstance(d, ast.Name) and d.id == "property" for d in fn_.decorator_list) and cls_ is not None and schema.is_aggregate(p.classinfo(mn_, cls_)) for mn_, qn_, cls_, fn_, call_ in sites):
                return True, "convenience annotation (private helper called from shortcut properties only): idempotent copy of the wrapper's like-named value"
    # 9a. the same annotation spelled setattr(x, n, getattr(y, n)) in a loop over a constant table of names that no
    #     model class declares as a child
    if kind == "self" and ctx.ci is not None and schema.is_aggregate(ctx.ci) and w.kind == "call:setattr" and isinstance(w.node, ast.Call) and len(w.node.args) == 3:
        fn = ctx.fn
        is_prop = any(isinstance(d, ast.Name) and d.id == "property" for d in fn.decorator_list)
        nm_, val_ = w.node.args[1], w.node.args[2]
        same_name = isinstance(val_, ast.Call) and isinstance(val_.func, ast.Name) and val_.func.id == "getattr" and len(val_.args) == 2 and text(val_.args[1]) == text(nm_)
        lp_ = parent(w.stmt)
        while lp_ is not None and not isinstance(lp_, (ast.For, ast.FunctionDef)):
            lp_ = parent(lp_)
        names_ = None
        if isinstance(lp_, ast.For) and isinstance(lp_.target, ast.Name) and isinstance(nm_, ast.Name) and nm_.id == lp_.target.id:
            from .fold import fold

            v_ = fold(lp_.iter, {}, p, mod)
            if isinstance(v_, (tuple, list)) and v_ and all(isinstance(x, str) for x in v_):
                names_ = list(v_)
        elif isinstance(nm_, ast.Constant) and isinstance(nm_.value, str):
            names_ = [nm_.value]
        if is_prop and same_name and names_ is not None:
            declared = [n_ for n_ in names_ if any(n_ in schema.spec(c) for c in schema.exported().values() if c.name.endswith(("STMTRS", "STMTENDRS")))]
            if not declared:
                return True, f"convenience annotation outside parse/convert/write: idempotent copy of the wrapper's like-named values {names_}"
    # 9b. the same annotation moved into a private module-level helper that only such shortcut properties call
    if kind == "param" and ctx.ci is None and qn.startswith("_") and "." not in qn and w.kind == "attr" and isinstance(w.target, ast.Attribute) \
            and isinstance(w.stmt, ast.Assign) and isinstance(w.stmt.value, ast.Attribute) and w.stmt.value.attr == w.target.attr \
            and isinstance(w.stmt.value.value, ast.Name) and w.stmt.value.value.id in ctx.params and mod.startswith(SCOPE_PREFIX):
        sites = _call_sites(p, qn)
        ok = bool(sites) and all(f is not None and c is not None and any(isinstance(d, ast.Name) and d.id == "property" for d in f.decorator_list) for _, _, c, f, _ in sites)
        if ok:
            return True, "convenience annotation (idempotent copy of the wrapper's like-named value) in a private helper called only from shortcut properties"
    # 10. DateTime.normalize_to_gmt re-registers the handler the decorator already registered
    if mod == TYPES and w.kind == "call:register" and kind == "self":
        call = w.node
        from . import dispatch as D

        ci = ctx.ci
        fam_name = w.target.attr if isinstance(w.target, ast.Attribute) else None
        fam = D.own_family(ci, fam_name) if ci is not None and fam_name else None
        if fam is not None and len(call.args) == 2:
            key = dotted(call.args[0])
            h = fam.get(key)
            same = h is not None and text(call.args[1]) == f"self.{h.fn.name}"
            return same, "re-registers, under the same key, the handler the decorator registered at class creation: the dispatch table's meaning is unchanged" if same else f"registers a different handler for {key} at run time: results depend on what was converted earlier"
        return False, "run-time registration on a shared dispatch table"
    return None, ""


def e_rules(p: Project, rep: Report, thorough=False, func_filter=None):
    rep.rule("E-R1", "no shared location (module global, class attribute, descriptor attribute, shared registry) is both written and read by code in scope")
    rep.rule("E-R2", "no function in scope mutates an object it was given (parameter, or alias of one) unless it first re-binds it to a copy, or every call site passes a fresh object (frozen triage table, side conditions re-checked)")
    rep.rule("E-R3", "element descriptors store converted values on the owning instance, never on themselves")
    rep.rule("E-R4", "no mutable default argument, no module-level or class-level parser/builder instance, no memoising decorator on a function returning mutable objects")
    schema = Schema(p)
    funcs = scope_functions(p, thorough)
    attr_reads = _attr_reads(p, funcs)
    name_reads = _name_reads(p, funcs)
    if func_filter is not None:
        funcs = [f_ for f_ in funcs if func_filter(*f_)]
    rep.unit("functions_in_scope", len(funcs))
    element = p.get_class(TYPES, "Element")
    nw = 0
    counts: Dict[str, int] = {}
    for modname, qn, cls, fn in funcs:
        ws = writes_in(fn)
        if not ws and not fn.args.defaults and not fn.args.kw_defaults and not fn.decorator_list:
            continue
        ctx = Ctx(p, modname, qn, cls, fn)
        # ---- E-R4 defaults / memo
        for d in list(fn.args.defaults) + [x for x in fn.args.kw_defaults if x is not None]:
            mutable = isinstance(d, (ast.List, ast.Dict, ast.Set, ast.ListComp, ast.DictComp, ast.SetComp)) or (
                isinstance(d, ast.Call) and _callee_last(d) not in ("tuple", "frozenset", "str", "int", "float", "bytes", "timedelta", "Decimal", "format", "getLogger")
            )
            rep.check("E-R4", f"{modname}:{qn}:default({text(d)[:40]})", not mutable, f"default argument {text(d)} is evaluated once and shared by every call (and thread)" if mutable else "", ctx.where(d))
        for dec in fn.decorator_list:
            dn = (dotted(dec.func) if isinstance(dec, ast.Call) else dotted(dec)) or ""
            if dn.split(".")[-1] in ("lru_cache", "cache", "cached_property", "memoize"):
                rets = [r.value for r in own_nodes(fn) if isinstance(r, ast.Return) and r.value is not None]
                immutable = bool(rets) and all(isinstance(r, ast.Constant) or (isinstance(r, ast.Call) and _callee_last(r) in ("str", "int", "float", "tuple", "frozenset", "timedelta", "Decimal", "format", "join", "bytes")) or isinstance(r, ast.JoinedStr) for r in rets)
                rep.check("E-R4", f"{modname}:{qn}:memoised", immutable, f"@{dn} shares one result object between all callers; the function returns a mutable object, so one caller's changes (or a later groom/indent) leak into the next call" if not immutable else "", ctx.where(dec))
        # ---- writes
        for w in ws:
            nw += 1
            if w.kind in ("global", "nonlocal"):
                gname = w.target.id
                if w.kind == "nonlocal":
                    continue
                read = gname in name_reads
                rep.check("E-R1", f"{modname}:{qn}:global({gname})", not read, f"module global {gname} is re-bound here and read in scope: results depend on earlier calls" if read else "", ctx.where(w.stmt))
                continue
            if w.kind == "call:__iadd__":
                # `x += y` changes an object in place only if x is a mutable sequence / set / mapping: annotated
                # str / int / bytes / Decimal / tuple names and right-hand sides are re-bindings
                IMM = ("str", "int", "float", "bytes", "bool", "Decimal", "decimal.Decimal", "tuple", "datetime.timedelta", "timedelta", "Optional[str]")
                nm_ = w.target.id
                ann = next((text(a.annotation) for a in list(fn.args.args) + list(fn.args.kwonlyargs) if a.arg == nm_ and a.annotation is not None), None)
                ann = ann or next((text(s_.annotation) for s_ in own_statements(fn) if isinstance(s_, ast.AnnAssign) and isinstance(s_.target, ast.Name) and s_.target.id == nm_), None)
                rhs = w.stmt.value
                rann = None
                if isinstance(rhs, ast.Call) and isinstance(rhs.func, ast.Name):
                    r_ = p.resolve(modname, rhs.func.id)
                    rn_ = getattr(r_, "node", None)
                    if isinstance(rn_, ast.FunctionDef) and rn_.returns is not None:
                        rann = text(rn_.returns)
                if (ann in IMM) or (rann in IMM):
                    continue
            node = ctx.cfg.node_of(w.stmt)
            if node is None:
                raise AnalysisError(f"write site {text(w.target)} in {modname}:{qn} not found in the CFG")
            # call:X on a plain local (e.g. args.append) -> classify the receiver; attr/item -> the base object
            tgt = w.target
            base = tgt.value if (w.kind in ("attr", "item", "del") and isinstance(tgt, (ast.Attribute, ast.Subscript))) else tgt
            kind, why = classify_value(base, node, ctx)
            counts[kind] = counts.get(kind, 0) + 1
            key = f"{modname}:{qn}:{w.kind}:{text(tgt)[:60]}"
            if kind == "fresh":
                continue
            if w.kind.startswith("call:") and w.kind[5:] in ("seek", "write", "writelines", "send", "put", "set", "truncate") and kind == "fresh":
                continue
            if kind == "unknown":
                # an object of unknown provenance: only a problem if it is mutated through a container/attribute store
                allowed, reason = triage(ctx, w, "param", why, schema)
                if allowed is None:
                    rep.note(f"E-R2 unresolved provenance: {key} ({why})")
                    continue
            if kind in ("self", "cls") and fn.name in CONSTRUCTION:
                continue
            # descriptor state (E-R3 / E-R1)
            is_descr = ctx.ci is not None and (element in ctx.ci.mro) and kind == "self"
            allowed, reason = triage(ctx, w, kind if kind != "unknown" else "param", why, schema)
            if allowed is True:
                rep.check("E-R2" if kind == "param" else "E-R1", key, True, reason, ctx.where(w.stmt))
                continue
            if allowed is False:
                rep.check("E-R2" if kind == "param" else "E-R1", key, False, reason, ctx.where(w.stmt))
                continue
            if kind == "param":
                ok_, reason_ = _judged_at_call_sites(p, ctx, w, schema)
                if ok_:
                    rep.check("E-R2", key, True, reason_, ctx.where(w.stmt))
                    continue
            if kind == "param":
                rep.check("E-R2", key, False, f"mutates an object it was given ({why}) without first re-binding it to a copy: the caller's tree / model / stream is changed by parsing, converting or writing", ctx.where(w.stmt))
            elif kind in ("self", "cls", "global"):
                attr = tgt.attr if isinstance(tgt, ast.Attribute) else (tgt.value.attr if isinstance(tgt, ast.Subscript) and isinstance(tgt.value, ast.Attribute) else (root_name(tgt) if kind == "global" else None))
                if kind == "global":
                    read = (root_name(tgt) in name_reads)
                else:
                    read = attr is None or attr in attr_reads
                rule = "E-R3" if is_descr else "E-R1"
                what = "the shared descriptor" if is_descr else ("the class" if kind == "cls" else ("a module-level object" if kind == "global" else "the instance outside construction"))
                if read:
                    rep.check(rule, key, False, f"writes state on {what} ({text(tgt)}) that code in scope also reads: results depend on what was processed before and on thread interleaving", ctx.where(w.stmt))
                else:
                    rep.note(f"{rule} write-only: {key} is written on {what} but never read in scope; it cannot influence a result")
    rep.unit("write_sites", nw)
    for k, v in counts.items():
        rep.unit(f"writes_{k}", v)
    if func_filter is None:
        rep.floor("E-R2", nw, 50, "write sites")
    # ---- E-R4 shared parser / builder instances; mutable class-level containers mutated via self handled above
    parser_classes = set()
    for bname, kind_, payload in p.module("ofxtools.Parser").bindings:
        if kind_ == "class":
            parser_classes.add(bname)
    parser_classes |= {"TreeBuilder", "XMLParser", "OFXTree"}
    n_inst = 0
    for name, m in p.modules.items():
        if not (name in QUICK_SCOPE or name.startswith(SCOPE_PREFIX) or name == "ofxtools.Client"):
            continue
        for node in ast.walk(m.tree):
            if isinstance(node, (ast.Assign, ast.AnnAssign)) and isinstance(parent(node), (ast.Module, ast.ClassDef)):
                v = node.value
                if isinstance(v, ast.Call) and _callee_last(v) in parser_classes:
                    n_inst += 1
                    rep.check("E-R4", f"{name}:shared-instance({text(v.func)})", False, f"a {text(v.func)} instance is created once at import and shared by every parse (its element stack is per-document state)", f"{m.relpath}:{node.lineno}")
    rep.check("E-R4", "no-shared-parser-instances", n_inst == 0, "", "")
    # TreeBuilder instantiated per parse
    from .flat import flat as _flat
    from .match import norm as _norm

    parse = _flat(p, "ofxtools.Parser", p.get_function("ofxtools.Parser", "OFXTree.parse").node, p.get_class("ofxtools.Parser", "OFXTree"), keep=("_read",))
    pname = params_of(parse)[2] if len(params_of(parse)) > 2 else "parser"
    ok = False
    for s_ in own_statements(parse):
        if isinstance(s_, ast.If):
            t = text(_norm(s_.test))
            makes = lambda body: any(isinstance(b, ast.Assign) and isinstance(b.value, ast.Call) and _callee_last(b.value) == "TreeBuilder" and not b.value.args for b in body)
            if t in (f"{pname} is None", f"not {pname}") and makes(s_.body):
                ok = True
            if t in (f"{pname} is not None", pname) and makes(s_.orelse):
                ok = True
    rep.check("E-R4", "OFXTree.parse:fresh-builder-per-parse", ok, "parse() does not create its own TreeBuilder when none is given", f"{p.module('ofxtools.Parser').relpath}:{parse.lineno}")


def e_r5_ownership_and_context(p: Project, rep: Report, thorough=False):
    """two effects outside the write-site classification: taking ownership of the caller's stream, and the thread-local decimal context"""
    rep.rule("E-R5", "a text wrapper put around a stream the caller gave is detached again on every normal path: io.TextIOWrapper(<param>) owns the buffer and CLOSES it when it is collected, so without .detach() parsing closes the caller's stream (it cannot be read or parsed again)")
    rep.rule("E-R6", "the decimal context is left alone: no assignment to decimal.getcontext().<attr>, no setcontext() - the context is per thread, so a change made at import (or by one call) holds only for the thread that made it and the same input converts differently in another thread")
    funcs = scope_functions(p, thorough)
    n5 = n6 = 0
    for modname, qn, cls, fn in funcs:
        params = set(params_of(fn))
        cfg = None
        for st in own_statements(fn):
            if isinstance(st, (ast.Assign, ast.AnnAssign)) and isinstance(st.value, ast.Call) and (dotted(st.value.func) or "").split(".")[-1] == "TextIOWrapper" and st.value.args:
                root = root_name(st.value.args[0])
                if root not in params:
                    continue
                n5 += 1
                tgt = st.targets[0] if isinstance(st, ast.Assign) else st.target
                name = tgt.id if isinstance(tgt, ast.Name) else None
                cfg = cfg or CFG(fn)
                node = cfg.node_of(st)
                det = [n.id for n in cfg.nodes_calling(lambda c: isinstance(c.func, ast.Attribute) and c.func.attr == "detach" and name is not None and text(c.func.value) == name)]
                ok = bool(det) and node is not None and cfg.must_pass_through([cfg.exit.id], det, edge_filter=cfg.normal_only(), start=node.id)
                rep.check("E-R5", f"{modname}:{qn}:TextIOWrapper({root})", ok, f"{text(st.value)[:70]} wraps the caller's stream and is not detached on every path: when the wrapper is collected it closes `{root}`, so the source given to the parser is closed by parsing it" if not ok else "", f"{p.module(modname).relpath}:{st.lineno}")
    # decimal context: anywhere in the modules in scope, including import time
    seen_mods = sorted({m for m, _q, _c, _f in funcs})
    for modname in seen_mods:
        m = p.module(modname)
        for x in ast.walk(m.tree):
            bad = None
            if isinstance(x, (ast.Assign, ast.AugAssign)):
                tgts = x.targets if isinstance(x, ast.Assign) else [x.target]
                for t in tgts:
                    if isinstance(t, ast.Attribute) and isinstance(t.value, ast.Call) and (dotted(t.value.func) or "").split(".")[-1] == "getcontext":
                        bad = text(t)
            elif isinstance(x, ast.Call) and (dotted(x.func) or "").split(".")[-1] == "setcontext":
                bad = text(x)[:60]
            if bad:
                n6 += 1
                rep.check("E-R6", f"{modname}:decimal-context({bad[:40]})", False, f"`{bad}` changes the decimal context of the current thread only: conversions done in any other thread keep the default context and give a different result (or raise) for the same input", f"{m.relpath}:{x.lineno}")
    if n5 == 0:
        rep.check("E-R5", "no-text-wrapper-around-caller-streams", True, "", "")
    if n6 == 0:
        rep.check("E-R6", "decimal-context-untouched", True, "", "")


def e_r7_reiterable_class_tables(p: Project, rep: Report):
    """class-level tables consulted on every construction can be iterated again and again"""
    from .source import Func as _Func

    rep.rule("E-R7", "tables that are read on every construction / conversion (optionalMutexes, requiredMutexes) are lists or tuples, never one-shot iterators: a generator expression, map/filter/zip/iter object, or a helper returning one, is exhausted by the first use - the constraint is enforced for the first instance only and silently dropped afterwards")
    schema = Schema(p)
    ONE_SHOT = ("map", "filter", "zip", "iter", "reversed", "enumerate")
    n = 0
    for ci in schema.all_aggregate_classes():
        for st in ci.node.body:
            tgt = st.targets[0] if isinstance(st, ast.Assign) and len(st.targets) == 1 else (st.target if isinstance(st, ast.AnnAssign) else None)
            if not (isinstance(tgt, ast.Name) and tgt.id in ("optionalMutexes", "requiredMutexes")) or getattr(st, "value", None) is None:
                continue
            n += 1
            v = st.value
            bad = None
            if isinstance(v, ast.GeneratorExp):
                bad = "a generator expression"
            elif isinstance(v, ast.Call) and isinstance(v.func, ast.Name) and v.func.id in ONE_SHOT:
                bad = f"a {v.func.id}() object"
            elif isinstance(v, ast.Call) and ((dotted(v.func) or "").startswith("itertools.") or (isinstance(v.func, ast.Name) and v.func.id in ("combinations", "permutations", "product", "chain", "islice", "starmap", "accumulate", "zip_longest", "pairwise"))):
                bad = f"an {dotted(v.func)}() iterator"
            elif isinstance(v, ast.Call) and isinstance(v.func, ast.Name):
                t_ = p.resolve(ci.module, v.func.id)
                if isinstance(t_, _Func):
                    rets = [r.value for r in own_nodes(t_.node) if isinstance(r, ast.Return) and r.value is not None]
                    if any(isinstance(r, ast.GeneratorExp) or (isinstance(r, ast.Call) and isinstance(r.func, ast.Name) and r.func.id in ONE_SHOT) for r in rets) or any(isinstance(x, (ast.Yield, ast.YieldFrom)) for x in ast.walk(t_.node)):
                        bad = f"the one-shot iterator returned by {v.func.id}()"
            rep.check("E-R7", f"{ci.name}.{tgt.id}:re-iterable", bad is None, f"{ci.name}.{tgt.id} is {bad}: validate_args consumes it on the first construction, after which the class enforces no such constraint at all (the same tree converts differently the second time)" if bad else "", f"{ci.mod.relpath}:{st.lineno}")
    rep.unit("class_level_mutex_tables", n)


def e_r8_memo_keys(p: Project, rep: Report, thorough=False):
    """memoisation keyed by == on arguments whose equality is coarser than what the result depends on"""
    rep.rule("E-R8", "no memoising decorator (lru_cache / cache) on a converter or formatter whose arguments are not plain text: the cache is keyed by hash/== of the arguments, and for datetime (equal by instant, whatever the zone), Decimal (1.0 == 1.00), int/bool/float (1 == True == 1.0) equal keys do not imply equal results - a later call is answered with the result of an earlier, different value")
    n = 0
    for modname, qn, cls, fn in scope_functions(p, thorough):
        for dec in fn.decorator_list:
            dn = (dotted(dec.func) if isinstance(dec, ast.Call) else dotted(dec)) or ""
            if dn.split(".")[-1] not in ("lru_cache", "cache", "memoize"):
                continue
            n += 1
            anns = [text(a.annotation) if a.annotation is not None else "?" for a in fn.args.args if a.arg not in ("self", "cls")]
            only_text = bool(anns) and all(a in ("str", "bytes") for a in anns)
            rep.check("E-R8", f"{modname}:{qn}:memo-key", only_text, f"@{dn} on {qn}({', '.join(anns)}): results are shared between arguments that merely compare equal (e.g. the same instant in two time zones, 1.0 and 1.00), so the output depends on what was converted earlier" if not only_text else "", f"{p.module(modname).relpath}:{fn.lineno}")
    if n == 0:
        rep.check("E-R8", "no-memoised-converters", True, "", "")


PROCESS_WIDE_SETTERS = {
    # interpreter-wide state a library function must leave alone: (module, function) -> what it is
    ("warnings", "catch_warnings"): "the warnings filter list (swapped for the whole process, not for the thread)",
    ("warnings", "simplefilter"): "the warnings filter list",
    ("warnings", "filterwarnings"): "the warnings filter list",
    ("warnings", "resetwarnings"): "the warnings filter list",
    ("decimal", "setcontext"): "the thread's decimal context",
    ("decimal", "getcontext"): None,  # reading is fine; writes to its attributes are caught below
    ("locale", "setlocale"): "the process locale",
    ("os", "chdir"): "the working directory",
    ("os", "umask"): "the process umask",
    ("sys", "setrecursionlimit"): "the recursion limit",
    ("socket", "setdefaulttimeout"): "the default socket timeout",
    ("logging", "disable"): "the logging threshold of the process",
    ("random", "seed"): "the shared random generator",
}


def e_r9_no_process_wide_settings(p: Project, rep: Report, thorough=False):
    """parse / convert / serialize leave the interpreter's own switches alone"""
    rep.rule("E-R9", "no function in scope changes a process-wide setting of the interpreter (warnings filters - `warnings.catch_warnings()` swaps the ONE filter list of the process, it is not thread-local -, decimal context, locale, default socket timeout, logging threshold ...): while one thread is inside such a block every other thread runs with the changed setting, and two overlapping blocks that end in the order they began leave it changed for good")
    funcs = scope_functions(p, thorough)
    n = 0
    hits = 0
    for modname, qn, cls, fn in funcs:
        for c in own_nodes(fn):
            if not isinstance(c, ast.Call):
                continue
            d = dotted(c.func) or ""
            parts = d.split(".")
            if len(parts) < 2 and isinstance(c.func, ast.Name):
                r = p.resolve(modname, c.func.id)
                d = getattr(r, "name", "") if isinstance(r, Ext) else ""
                parts = d.split(".")
            if len(parts) < 2:
                continue
            n += 1
            # `import warnings as w`: the first part resolves to the external module
            head = p.resolve(modname, parts[0])
            mod0 = (head.name if isinstance(head, Ext) else parts[0]).split(".")[0] if len(parts) == 2 else parts[-2]
            what = PROCESS_WIDE_SETTERS.get((mod0, parts[-1]))
            if what:
                hits += 1
                rep.check("E-R9", f"{modname}:{qn}:{mod0}.{parts[-1]}", False, f"{qn} calls {d}(...), which changes {what}: results of conversions running in other threads (and, after overlapping calls, of every later one) depend on it", f"{p.module(modname).relpath}:{c.lineno}")
    rep.unit("calls_checked_for_process_settings", n)
    if hits == 0:
        rep.check("E-R9", "scope:no-process-wide-setting-changed", True, f"{len(funcs)} functions", "")
