#!/bin/bash
# usage: rebase_patch.sh <corpus dir> <old rev> [<new rev, default HEAD>]
# Re-create <dir>/patch.diff (made against <old rev> of /repo) against <new rev> by a 3-way merge per touched file.
# Prints CONFLICT <file> and leaves patch.diff alone when a hunk needs a hand merge (merged text with markers in /tmp/rebase.<pid>/).
set -e
D=$(readlink -f $1); OLD=$2; NEW=${3:-HEAD}
W=$(mktemp -d /tmp/rebase.XXXXXX)
git -C /repo worktree add -q --detach $W/old $OLD
git -C /repo worktree add -q --detach $W/new $NEW
cleanup() { git -C /repo worktree remove --force $W/old 2>/dev/null || true; git -C /repo worktree remove --force $W/new 2>/dev/null || true; git -C /repo worktree prune; }
( cd $W/old && git apply $D/patch.diff )
bad=0
for f in $(cd $W/old && git status --porcelain | awk '{print $2}'); do
  if [ ! -f $W/new/$f ]; then mkdir -p $(dirname $W/new/$f); cp $W/old/$f $W/new/$f; continue; fi
  git -C /repo show $OLD:$f > $W/base.txt 2>/dev/null || : > $W/base.txt
  if [ ! -f $W/old/$f ]; then rm -f $W/new/$f; continue; fi
  if ! git merge-file -p $W/new/$f $W/base.txt $W/old/$f > $W/merged.txt; then
    echo "CONFLICT $f (see $W/merged.$(basename $f))"; cp $W/merged.txt $W/merged.$(basename $f); bad=1
  else cp $W/merged.txt $W/new/$f; fi
done
if [ $bad = 0 ]; then
  ( cd $W/new && git add -A -N . && git diff ) > $W/new.diff
  cp $W/new.diff $D/patch.diff; echo "rebased $D"
  cleanup; rm -rf $W
else
  cleanup
fi
