#!/bin/bash
# import_benign.sh <worktree> <N> <slug> : confirm (suite passes with the patch) and import a behaviour-preserving refactor
wt=$1; n=$2; slug=$3
cd $wt || exit 9
git checkout -q -- ofxtools
git apply patch_$n.diff || { echo "does not apply"; exit 1; }
/venv/bin/python -m pytest -q -p no:cacheprovider --timeout=900 > confirm_${n}_suite.log 2>&1; s=$?
tail=$(tail -1 confirm_${n}_suite.log | tr -d '"')
git checkout -q -- ofxtools
[ $s -eq 0 ] || { echo "suite fails with $slug: $tail"; exit 1; }
d=/verif/benign/$slug; mkdir -p $d
cp patch_$n.diff $d/patch.diff; [ -f notes_$n.md ] && cp notes_$n.md $d/notes.md
echo "{\"id\": \"$slug\", \"origin\": \"independent sub-agent asked for a behaviour-preserving refactor\", \"suite_with_patch\": \"$tail\"}" > $d/meta.json
echo imported $slug
