#!/venv/bin/python
"""markdown table 'as built' from the evidence files of the last quick run: obligations, known findings, rule ids, wall time"""
import json, pathlib, re
print("| id | obligations decided | known findings | rules evaluated (ids) | quick wall |")
print("|---|---|---|---|---|")
for i in range(1, 20):
    pid = f"C{i:02d}"
    f = pathlib.Path(f"/verif/evidence/{pid}.json")
    if not f.exists():
        continue
    d = json.loads(f.read_text())
    c = d["coverage"]
    rules = sorted(c.get("rules", {}), key=lambda r: (re.sub(r"\d.*", "", r), int(re.search(r"\d+", r).group()) if re.search(r"\d+", r) else 0, r))
    print(f"| {pid} | {c.get('obligations')} | {c.get('known_findings', 0)} | {', '.join(rules)} | {d.get('wall_s')} s |")
