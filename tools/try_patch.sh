#!/bin/bash
# try_patch.sh <patch> : apply to /repo, run all quick checks, print non-zero ones compactly, revert
p=$1
cd /repo && git apply $p || { echo "NOAPPLY $p"; exit 1; }
cd /verif
for i in 01 02 03 04 05 06 07 08 09 10 11 12 13 14 15 16 17 18 19; do
  out=$(/venv/bin/python -m sa.check C$i 2>&1); rc=$?
  if [ $rc -ne 0 ]; then echo "  C$i rc=$rc"; echo "$out" | grep -E "^\s+ofxtools/|ANALYSIS-ERROR" | cut -c1-230 | head -${2:-3}; fi
  echo "$out" | grep UNDECIDED | cut -c1-200
done
cd /repo && git checkout -- .
