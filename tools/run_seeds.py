#!/venv/bin/python
"""apply each /verif/seeded/*/patch.diff to /repo, run the quick checks, undo; record who detects what.
usage: run_seeds.py [seed-id-substring ...]"""
import json, os, pathlib, subprocess, sys
REPO = os.environ.get("CORPUS_REPO", "/repo")  # a scratch worktree may be given instead of /repo
OUT = f"/tmp/seedrun.{os.getpid()}.out"
ENV = f"OFXTOOLS_VERIF_REPO={REPO} SA_NO_EVIDENCE={1 if REPO != '/repo' else 0} "
ROOT = pathlib.Path("/verif/seeded")
man = json.load(open("/verif/MANIFEST.json"))
checks = {c["property_id"]: c["quick_cmd"] for c in man["checks"]}
def sh(cmd): return subprocess.run(cmd, shell=True, capture_output=True, text=True)
assert sh(f"git -C {REPO} status --porcelain -- ofxtools").stdout.strip() == "", f"{REPO} not clean"
sel = sys.argv[1:]
for d in sorted(ROOT.iterdir()):
    if not (d / "patch.diff").exists() or (sel and not any(s in d.name for s in sel)):
        continue
    meta = json.loads((d / "meta.json").read_text())
    r = sh(f"git -C {REPO} apply {d/'patch.diff'}")
    if r.returncode != 0:
        print(d.name, "PATCH DOES NOT APPLY", r.stderr[:200]); continue
    try:
        det = {}
        for pid, cmd in checks.items():
            rr = sh(cmd.replace("cd /verif && ", "cd /verif && " + ENV) + f" >{OUT} 2>&1; echo $?")
            code = int(rr.stdout.strip().splitlines()[-1])
            if code != 0:
                out = open(OUT).read()
                lines = [l.strip() for l in out.splitlines() if l.strip().startswith("ofxtools/") or "ANALYSIS-ERROR" in l]
                det[pid] = {"exit": code, "reports": lines[:3]}
    finally:
        sh(f"git -C {REPO} checkout -- .")
    own = meta["property"]
    meta["detected_by"] = det
    meta["detected_by_own_property_check"] = bool(det.get(own, {}).get("exit") == 1) if own in checks else None
    (d / "meta.json").write_text(json.dumps(meta, indent=1) + "\n")
    status = "DETECTED" if det.get(own, {}).get("exit") == 1 else ("detected-elsewhere" if any(v["exit"] == 1 for v in det.values()) else "MISSED")
    print(f"{d.name:40s} {status:20s} {({k: v['exit'] for k, v in det.items()})}")
    for k, v in det.items():
        for l in v["reports"][:1]:
            print("      ", k, l[:200])
assert sh(f"git -C {REPO} status --porcelain -- ofxtools").stdout.strip() == "", f"{REPO} not clean after run"
# restore evidence written against patched trees
if REPO == "/repo":
    for pid, cmd in checks.items():
        sh(cmd)
