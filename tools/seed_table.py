#!/venv/bin/python
"""markdown table of the seeded corpus: seed, what it needs to manifest, the obligation(s) of its own property's check that report it
(in-memory application of each patch; same machinery as the self-test)"""
import json, pathlib, sys
sys.path.insert(0, "/verif")
import concurrent.futures as cf
from sa.selftest import _run_variant
from sa.source import repo_root
root = str(repo_root())
work = []
metas = {}
for d in sorted(pathlib.Path("/verif/seeded").iterdir()):
    m = json.loads((d / "meta.json").read_text())
    metas[d.name] = m
    work.append((d.name, m["property"], {"patch": (d / "patch.diff").read_text()}, "fault", root))
with cf.ProcessPoolExecutor(16) as ex:
    res = list(ex.map(_run_variant, work))
print("| seeded change | needs, to manifest | reported by (own property's check) |")
print("|---|---|---|")
for mid, prop, kind, outcome, info in res:
    m = metas[mid]
    print(f"| {mid} | {m.get('needs_to_manifest','')[:110]} | {', '.join(i.split(':')[0] + ' ' + ':'.join(i.split(':')[1:])[:60] for i in info[:2]) if outcome == 'reported' else outcome.upper()} |")
