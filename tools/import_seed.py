#!/venv/bin/python
"""import a confirmed seeded change from a sub-agent's scratch worktree into /verif/seeded/<id>/
usage: import_seed.py <worktree> <N> <property> <slug> "<needs>" """
import json, pathlib, shutil, sys
wt, n, prop, slug, needs = sys.argv[1:6]
wt = pathlib.Path(wt)
conf = json.loads((wt / f"confirm_{n}.json").read_text())
assert conf["applies"] and conf["demo_exit_original"] == 0 and conf["demo_exit_patched"] != 0 and conf["suite_exit_patched"] == 0, conf
d = pathlib.Path("/verif/seeded") / f"{prop}-{slug}"
d.mkdir(parents=True, exist_ok=True)
shutil.copy(wt / f"patch_{n}.diff", d / "patch.diff")
shutil.copy(wt / f"demo_{n}.py", d / "demo.py")
if (wt / f"notes_{n}.md").exists():
    shutil.copy(wt / f"notes_{n}.md", d / "notes.md")
meta = {
    "id": f"{prop}-{slug}", "property": prop, "origin": "independent sub-agent given only the property text and a scratch worktree",
    "needs_to_manifest": needs,
    "confirmed": {"how": "tools/confirm_seed.sh in a scratch worktree of /repo HEAD: demo on clean tree, demo with patch, full unedited suite with patch",
                  "demo_exit_original": conf["demo_exit_original"], "demo_exit_patched": conf["demo_exit_patched"],
                  "suite_with_patch": conf["suite_tail"]},
    "detected_by": None,
}
(d / "meta.json").write_text(json.dumps(meta, indent=1) + "\n")
print("imported", d)
