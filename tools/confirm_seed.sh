#!/bin/bash
# usage: confirm_seed.sh <worktree dir> <N>   - confirms a seeded change: demo passes without, fails with; full suite passes with
d=$1; n=$2
cd $d || exit 9
git checkout -q -- ofxtools
/venv/bin/python demo_$n.py > confirm_${n}_demo_orig.log 2>&1; o=$?
git apply patch_$n.diff || { echo "{\"patch\":\"$n\",\"applies\":false}" > confirm_$n.json; exit 1; }
/venv/bin/python demo_$n.py > confirm_${n}_demo_patched.log 2>&1; p=$?
/venv/bin/python -m pytest -q -p no:cacheprovider --timeout=900 > confirm_${n}_suite.log 2>&1; s=$?
tail=$(tail -1 confirm_${n}_suite.log | tr -d '"')
git checkout -q -- ofxtools
echo "{\"patch\":\"$n\",\"applies\":true,\"demo_exit_original\":$o,\"demo_exit_patched\":$p,\"suite_exit_patched\":$s,\"suite_tail\":\"$tail\"}" > confirm_$n.json
