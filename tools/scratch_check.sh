#!/bin/bash
# usage: scratch_check.sh <patch.diff> <Cnn> [more check args]  - apply a patch to a scratch copy of /repo's tree and run one check on it
set -e
P=$1; C=$2; shift 2
D=$(mktemp -d /tmp/sc.XXXXXX)
trap 'rm -rf $D' EXIT
mkdir -p $D/repo; cp -r /repo/ofxtools $D/repo/; cp /repo/setup.py /repo/setup.cfg $D/repo/ 2>/dev/null || true
( cd $D/repo && git init -q . && git apply $P )
cd /verif && OFXTOOLS_VERIF_REPO=$D/repo SA_NO_EVIDENCE=1 /venv/bin/python -m sa.check $C "$@" 2>&1 | grep -v "^  ok\|^$" | tail -25
