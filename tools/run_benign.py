#!/venv/bin/python
"""apply each /verif/benign/*/patch.diff (behaviour-preserving refactors written by independent sub-agents) to /repo,
run all quick checks, undo; every check must stay at exit 0.  usage: run_benign.py [substr ...]"""
import json, os, pathlib, subprocess, sys
REPO = os.environ.get("CORPUS_REPO", "/repo")  # a scratch worktree may be given instead of /repo
OUT = f"/tmp/benrun.{os.getpid()}.out"
ENV = f"OFXTOOLS_VERIF_REPO={REPO} SA_NO_EVIDENCE={1 if REPO != '/repo' else 0} "
ROOT = pathlib.Path("/verif/benign")
man = json.load(open("/verif/MANIFEST.json"))
checks = {c["property_id"]: c["quick_cmd"] for c in man["checks"]}
def sh(cmd): return subprocess.run(cmd, shell=True, capture_output=True, text=True)
assert sh(f"git -C {REPO} status --porcelain -- ofxtools").stdout.strip() == "", f"{REPO} not clean"
sel = sys.argv[1:]
bad = 0
for d in sorted(ROOT.iterdir()):
    if not (d / "patch.diff").exists() or (sel and not any(s in d.name for s in sel)):
        continue
    r = sh(f"git -C {REPO} apply {d/'patch.diff'}")
    if r.returncode != 0:
        print(d.name, "PATCH DOES NOT APPLY", r.stderr[:200]); continue
    try:
        alarms = {}
        for pid, cmd in checks.items():
            rr = sh(cmd.replace("cd /verif && ", "cd /verif && " + ENV) + f" >{OUT} 2>&1; echo $?")
            code = int(rr.stdout.strip().splitlines()[-1])
            if code != 0:
                out = open(OUT).read()
                lines = [l.strip() for l in out.splitlines() if l.strip().startswith("ofxtools/") or "ANALYSIS-ERROR" in l]
                alarms[pid] = {"exit": code, "reports": lines[:3]}
    finally:
        sh(f"git -C {REPO} checkout -- .")
    meta = json.loads((d / "meta.json").read_text()) if (d / "meta.json").exists() else {"id": d.name}
    meta["alarms"] = alarms
    (d / "meta.json").write_text(json.dumps(meta, indent=1) + "\n")
    print(f"{d.name:34s} {'silent' if not alarms else 'ALARM ' + str({k: v['exit'] for k, v in alarms.items()})}")
    for k, v in alarms.items():
        bad += 1
        for l in v["reports"][:2]:
            print("      ", k, l[:220])
assert sh(f"git -C {REPO} status --porcelain -- ofxtools").stdout.strip() == "", f"{REPO} not clean after run"
if REPO == "/repo":
    for pid, cmd in checks.items():
        sh(cmd)
sys.exit(1 if bad else 0)
